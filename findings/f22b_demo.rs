use statime::{
    config::{AcceptAnyMaster, ClockIdentity, InstanceConfig, SdoId, TimePropertiesDS, TimeSource},
    filters::BasicFilter,
    port::{InBmca, Port},
    time::{Duration, Time},
    Clock, PtpInstance,
};
use std::cell::RefCell;

struct C;
impl Clock for C {
    type Error = ();
    fn now(&self) -> Time { Time::from_nanos(0) }
    fn step_clock(&mut self, _o: Duration) -> Result<Time, ()> { Ok(Time::from_nanos(0)) }
    fn set_frequency(&mut self, _f: f64) -> Result<Time, ()> { Ok(Time::from_nanos(0)) }
    fn set_properties(&mut self, _t: &TimePropertiesDS) -> Result<(), ()> { Ok(()) }
}

#[test]
fn bmca_before_first_port() {
    let config = InstanceConfig {
        clock_identity: ClockIdentity([1; 8]),
        priority_1: 128,
        priority_2: 128,
        domain_number: 0,
        slave_only: false,
        sdo_id: SdoId::default(),
        path_trace: false,
        clock_quality: statime::config::ClockQuality::default(),
    };
    let tp = TimePropertiesDS::new_arbitrary_time(false, false, TimeSource::InternalOscillator);
    let instance = PtpInstance::<BasicFilter, RefCell<statime::PtpInstanceState>>::new(config, tp);
    let mut ports: [&mut Port<'_, InBmca, AcceptAnyMaster, rand::rngs::mock::StepRng, C, BasicFilter, RefCell<statime::PtpInstanceState>>; 0] = [];
    instance.bmca(&mut ports);
}
