#!/bin/bash
# round 5: /tmp/seed5out/Cnn/{A,B} -> /verif/seeded/Cnn-{I,J}, then verify each new one (4 at a time)
new=""
for d in /tmp/seed5out/C*/[AB]; do
  [ -f $d/patch.diff ] || continue
  c=$(basename $(dirname $d)); v=$(basename $d | tr AB IJ); id=$c-$v
  if [ ! -f /verif/seeded/$id/verified.txt ]; then
    mkdir -p /verif/seeded/$id; cp $d/* /verif/seeded/$id/
    new="$new $id"
  fi
done
echo $new | tr ' ' '\n' | grep . | xargs -P 4 -I{} sh -c '/verif/tools/verify_seed.sh /verif/seeded/{} > /tmp/verify_{}.log 2>&1; echo "== {} $(tail -2 /tmp/verify_{}.log | head -1)"'
