#!/opt/veriftools/pyvenv/bin/python
import json, jsonschema, sys, glob
jsonschema.validate(json.load(open('/verif/MANIFEST.json')), json.load(open('/root/.vp/MANIFEST.schema.json')))
es = json.load(open('/root/.vp/EVIDENCE.schema.json'))
for f in sorted(glob.glob('/verif/evidence/C*.json')):
    jsonschema.validate(json.load(open(f)), es)
    print("ok", f)
print("manifest ok")
