#!/bin/bash
# usage: tools/mutant.sh <patch.diff> <Cnn> [Cnn...]   — apply a patch to a scratch copy of /repo and run checks on it
# (development aid; the scratch copy lives in /tmp/mut and is refreshed from /repo each time)
set -e
PATCH=$(realpath "$1"); shift
mkdir -p /tmp/mut
rsync -a --delete --exclude target --exclude .git /repo/ /tmp/mut/repo/
cd /tmp/mut/repo
patch -p1 -s < "$PATCH"
cd /verif
for c in "$@"; do
  VERIF_REPO=/tmp/mut/repo VERIF_EVIDENCE_DIR=/tmp/mut/evidence ./check $c || true
done
