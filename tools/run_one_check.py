#!/usr/bin/env python3
# development aid: run ONE check over every seed of that property (seeds) or over every control (controls)
# usage: tools/run_one_check.py Cnn seeds|controls
import os, sys, subprocess, shutil, concurrent.futures, json
V="/verif"; chk=sys.argv[1]; kind=sys.argv[2]
base = os.path.join(V, "validation/refactors") if kind=="controls" else os.path.join(V,"seeded")
ids = sorted(d for d in os.listdir(base) if os.path.isfile(os.path.join(base,d,"patch.diff")))
if kind=="seeds": ids=[i for i in ids if i.startswith(chk)]
def run(i):
    w="/tmp/mut/one-%s"%i
    shutil.rmtree(w, ignore_errors=True); os.makedirs(w)
    subprocess.run(["rsync","-a","--exclude","target","--exclude",".git","/repo/",w+"/repo/"],check=True)
    r=subprocess.run(["patch","-p1","-s","-i",os.path.join(base,i,"patch.diff")],cwd=w+"/repo",stdout=subprocess.PIPE,stderr=subprocess.STDOUT)
    if r.returncode!=0:
        shutil.rmtree(w, ignore_errors=True); return (i,"n/a")
    env=dict(os.environ, VERIF_REPO=w+"/repo", VERIF_EVIDENCE_DIR=w+"/ev")
    o=subprocess.run([V+"/check",chk],env=env,stdout=subprocess.PIPE,stderr=subprocess.STDOUT,text=True)
    shutil.rmtree(w, ignore_errors=True)
    return (i, o.returncode)
with concurrent.futures.ThreadPoolExecutor(max_workers=12) as ex:
    res=list(ex.map(run, ids))
fired=[i for i,r in res if r not in (0,"n/a")]
print(kind, chk, "total", len(res), "fired", len(fired), fired)
