#!/bin/bash
# round K: /tmp/seedKout/Cnn/ -> /verif/seeded/Cnn-K, then verify each new one (6 at a time)
new=""
for d in /tmp/seedKout/C??; do
  [ -f $d/patch.diff ] && [ -f $d/demo.diff ] && [ -f $d/meta.json ] || continue
  id=$(basename $d)-K
  if [ ! -f /verif/seeded/$id/verified.txt ]; then
    mkdir -p /verif/seeded/$id; cp $d/patch.diff $d/demo.diff $d/meta.json /verif/seeded/$id/
    new="$new $id"
  fi
done
echo $new | tr ' ' '\n' | grep . | xargs -P 6 -I{} sh -c '/verif/tools/verify_seed.sh /verif/seeded/{} > /tmp/verify_{}.log 2>&1; echo "== {} $(tail -2 /tmp/verify_{}.log | head -1)"'
