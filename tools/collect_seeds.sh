#!/bin/bash
# copies finished sub-agent outputs /tmp/seed/Cnn/OUT/{A,B} into /verif/seeded/Cnn-{A,B} and verifies new ones
for d in /tmp/seed/C*/OUT/*; do
  [ -f $d/patch.diff ] || continue
  id=$(echo $d | sed -E 's#/tmp/seed/(C[0-9]+)/OUT/(.*)#\1-\2#')
  if [ ! -f /verif/seeded/$id/verified.txt ]; then
    mkdir -p /verif/seeded/$id; cp $d/* /verif/seeded/$id/
    echo "== $id"; /verif/tools/verify_seed.sh /verif/seeded/$id 2>&1 | tail -1
  fi
done
