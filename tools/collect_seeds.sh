#!/bin/bash
# copies finished sub-agent outputs <base>/Cnn/OUT/{A,B} into /verif/seeded/Cnn-{A,B} (round 1, base /tmp/seed)
# or Cnn-{C,D} (round 2, base /tmp/seed2) and verifies new ones.  usage: collect_seeds.sh [/tmp/seed|/tmp/seed2]
BASE=${1:-/tmp/seed}
for d in $BASE/C*/OUT/*; do
  [ -f $d/patch.diff ] || continue
  c=$(echo $d | sed -E "s#$BASE/(C[0-9]+)/OUT/(.*)#\1#"); v=$(basename $d)
  if [ "$BASE" = /tmp/seed2 ]; then v=$(echo $v | tr AB CD); fi
  id=$c-$v
  if [ ! -f /verif/seeded/$id/verified.txt ]; then
    mkdir -p /verif/seeded/$id; cp $d/* /verif/seeded/$id/
    echo "== $id"; /verif/tools/verify_seed.sh /verif/seeded/$id 2>&1 | tail -1
  fi
done
