#!/usr/bin/env python3
"""Development aid: behaviour-preserving control patches (validation/refactors/<id>/patch.diff) must leave every check
silent. Applies each to a scratch copy of /repo (under /tmp/mut/refac-<id>, removed afterwards) and runs all checks.
usage: tools/run_refactors.py [--collect /tmp/refac] [--jobs N] [ids...]"""
import os, sys, json, subprocess, shutil, re, concurrent.futures, glob
V = os.path.dirname(os.path.dirname(os.path.abspath(__file__)))
RD = os.path.join(V, "validation", "refactors")
os.makedirs(RD, exist_ok=True)
args = sys.argv[1:]
jobs = 3
if "--jobs" in args:
    i = args.index("--jobs"); jobs = int(args[i + 1]); del args[i:i + 2]
if "--collect" in args:
    i = args.index("--collect"); base = args[i + 1]; del args[i:i + 2]
    for d in sorted(glob.glob(os.path.join(base, "*", "OUT", "*"))):
        if os.path.isfile(os.path.join(d, "patch.diff")):
            dst = os.path.join(RD, os.path.basename(d))
            if not os.path.isdir(dst):
                shutil.copytree(d, dst)
enabled = open(os.path.join(V, "tools", "enabled.txt")).read().split()
ids = sorted(d for d in os.listdir(RD) if os.path.isfile(os.path.join(RD, d, "patch.diff")))
if args:
    ids = [i for i in ids if i in args]


def run(rid):
    work = "/tmp/mut/refac-%s" % rid
    shutil.rmtree(work, ignore_errors=True)
    os.makedirs(work)
    subprocess.run(["rsync", "-a", "--exclude", "target", "--exclude", ".git", "/repo/", work + "/repo/"], check=True)
    p = os.path.join(RD, rid, "patch.diff")
    r = subprocess.run(["patch", "-p1", "-s", "-i", p], cwd=work + "/repo", stdout=subprocess.PIPE, stderr=subprocess.STDOUT, text=True)
    res = {"id": rid, "applies": r.returncode == 0, "fired": {}}
    if r.returncode == 0:
        env = dict(os.environ, VERIF_REPO=work + "/repo", VERIF_EVIDENCE_DIR=work + "/evidence")
        for c in enabled:
            o = subprocess.run([os.path.join(V, "check"), c], env=env, stdout=subprocess.PIPE, stderr=subprocess.STDOUT, text=True)
            if o.returncode != 0:
                res["fired"][c] = {"exit": o.returncode, "lines": [l.strip()[:400] for l in o.stdout.splitlines()
                                                                   if l.strip().startswith(("rule=", "at ", "INTERNAL"))][:8]}
    shutil.rmtree(work, ignore_errors=True)
    json.dump(res, open(os.path.join(RD, rid, "result.json"), "w"), indent=1)
    return res


with concurrent.futures.ThreadPoolExecutor(max_workers=jobs) as ex:
    results = list(ex.map(run, ids))
for r in results:
    print(r["id"], "applies" if r["applies"] else "DOES-NOT-APPLY", "SILENT" if not r["fired"] else "FIRED: " + ", ".join(r["fired"]))
    for c, v in r["fired"].items():
        for l in v["lines"]:
            print("     ", c, l)
