#!/bin/bash
# usage: tools/verify_seed.sh <seed dir with patch.diff demo.diff meta.json> 
# Confirms in a scratch worktree: (i) pinned+demo: demo passes; (ii) pinned+patch: whole suite passes;
# (iii) pinned+patch+demo: demo fails. Writes <seed dir>/verified.txt. Worktree is removed afterwards.
D=$(realpath "$1")
W=$(mktemp -d /tmp/vseed.XXXXXX)
rmdir $W
git -C /repo worktree add -q --detach $W HEAD || exit 2
cd $W
export CARGO_NET_OFFLINE=true
DEMO=$(python3 -c "import json,sys; print(json.load(open('$D/meta.json'))['demo_cmd'])" | sed -E "s#cd /tmp/seed[2345K]?/C[0-9]+ *(&&|;)##; s#/tmp/seed[2345K]?/C[0-9]+#$W#g")
res=""
git apply "$D/demo.diff" || { echo "demo.diff does not apply" > $D/verified.txt; cd /; git -C /repo worktree remove --force $W; exit 1; }
if bash -c "$DEMO" > $W/.log1 2>&1; then res="$res (i) demo passes on pinned tree: OK;"; else res="$res (i) FAIL(demo fails on pinned tree);"; fi
git checkout -q -- . ; git clean -fdq -e target -e .log1
git apply "$D/patch.diff" || { echo "patch.diff does not apply" > $D/verified.txt; cd /; git -C /repo worktree remove --force $W; exit 1; }
if cargo test --workspace --no-fail-fast --offline > $W/.log2 2>&1; then res="$res (ii) full suite passes with patch: OK ($(grep -c '^test .* ok$' $W/.log2) tests ok);"; else res="$res (ii) FAIL(suite fails with patch);"; fi
git apply "$D/demo.diff" 
if bash -c "$DEMO" > $W/.log3 2>&1; then res="$res (iii) FAIL(demo passes with patch);"; else
  if grep -q "test result: FAILED\|panicked\|FAILED" $W/.log3; then res="$res (iii) demo fails with patch: OK;"; else res="$res (iii) demo command failed without test failure (build error?): CHECK;"; fi
fi
echo "$res" | tee $D/verified.txt
echo "demo_cmd: $DEMO" >> $D/verified.txt
cd /
git -C /repo worktree remove --force $W
