#!/usr/bin/env python3
"""Regenerates MANIFEST.json from the per-property metadata below + which rule modules exist."""
import json, os
V = os.path.dirname(os.path.dirname(os.path.abspath(__file__)))
META = {
 "C03": ("other", "panic-site ledger over MIR", "Every panic-capable MIR construct (Assert terminators, calls to the catalogue of panicking callees) in every library body reachable from the public API is discharged by a structural rule (constant facts, slice-length analysis, integer intervals, typestate, capacity counting), a reviewed guard pattern that is re-checked on every run, or reported. Decides 'no reachable unproven panic site'; does not execute anything.", "Trusted: rustc MIR construction, the panicking-callee catalogue for core/arrayvec/fixed/az, reviewed-table entries marked trusted, derive-generated code, host trait impls honour their contracts."),
 "C04": ("other", "codec layout extraction + length-window dataflow", "Decides structural clauses: every decode index is below a proven length; bodies/TLVs are parsed from the declared-length window; writer, reader and an independently written Clause 13 table agree on offset/width/byte order/bit of every field; size constants agree; enum<->octet tables are mutually inverse. Value-level round trip equality is not decided.", "Trusted: spec table engine/spec/wire_layout.json transcribed from IEEE 1588-2019 Clause 13; rustc MIR."),
 "C05": ("other", "comparison/decision wiring tables from MIR", "Decides wiring clauses of the BMCA: same-field pairing and Figure 34 order in the data set comparison, Ebest/Erbest wiring into the state decision, exclusion gate for master-only/faulty ports, decision-code to port-state table against the IEEE table, data-set update wiring. Does not decide order-independence on exact ties.", "Trusted: spec tables in engine/spec; rustc MIR."),
 "C06": ("other", "dominance/control-dependence of qualification gates", "Decides: every insertion into the foreign-master records is dominated by the qualification gate; the gate rejects stepsRemoved>=255 and own clock identity; only records with >= threshold (>=2) messages inside a window of 4 announce intervals yield Erbest; ageing is called for every port on every BMCA; the selected record is re-registered with its age; sequence comparison wraps.", "Trusted: rustc MIR; temporal clauses (bounded expiry time) not decided."),
 "C07": ("other", "control-dependence non-interference", "Decides that every state effect of the receive handlers (writes through self, with_mut sections, calls with &mut state to effectful callees, non-empty action lists) is control-dependent on the gate conditions the property names (version/domain/sdoId, own identity, acceptable master list, selected parent, requesting port identity). Does not decide run-time equality of two runs.", "Trusted: effect summaries of engine/sa/effects.py; logging is not an effect; rustc MIR."),
 "C08": ("other", "enum typestate over MIR + who-may-call", "Decides: emitters of Announce/Sync/Follow_Up/Delay_Resp execute only where the port state set is {Master}, Delay_Req only in {Slave}; every transition to Master is guarded by !slave_only; master-only/faulty ports cannot feed Ebest; only Filter impls call clock steering methods; leaving Slave replaces and demobilizes the filter. 'At most one slave port' depends on run-time equality and is not decided.", "Trusted: rustc MIR; host Filter/Clock impls."),
 "C09": ("other", "control dependence + provenance of measurement state", "Decides: every timestamp store into an existing exchange is control-dependent on the sequence-id match; a new exchange takes its id from the triggering message and never inherits a timestamp of the replaced state; producing a measurement resets the consumed state; the operands of each subtraction in the offset/delay formulas are the IEEE-prescribed fields (expression trees over provenance). Numeric exactness not decided.", "Trusted: engine/spec/formulas.json; rustc MIR."),
 "C10": ("other", "wiring provenance + action-list counting + compile-fail witnesses", "Decides: at most one event send per action list; Follow_Up/Delay_Resp/Pdelay_Resp echo ids and requester identity from the triggering context; one sequence generator per message type, wrapping increment; every frame is a sub-slice of the fixed packet buffer; own identity/domain/sdoId wiring. Timestamp arithmetic exactness not decided.", "Trusted: rustc MIR and borrow checker (witnesses)."),
 "C11": ("other", "field-to-field wiring tables", "Decides: each Announce field/flag is copied from the data-set field IEEE 13.5 prescribes; S1 and M1/M2 updates write each data-set field from the prescribed source incl. stepsRemoved+1 / 0; Announce is built from live state at send time; time_properties() inverts the flag wiring. Timing ('next Announce') not decided.", "Trusted: engine/spec/announce_wiring.json; rustc MIR."),
 "C12": ("other", "FSM extraction + timer pairing on all paths", "Decides: every port-state transition site is paired with the timer requests its target state needs on every path to the return (directly or through pending_action); periodic senders re-arm their own timer on every feasible return path; the initial receipt timer exists. Liveness over time not decided.", "Trusted: timer contract table in engine/spec/fsm.json; rustc MIR."),
 "C13": ("other", "who-may-call + dataflow through the clamp", "Decides: every set_frequency argument in the Kalman servo is 0.0 or current + clamp_adjustment(current, _, max_freq_offset); step only on the >= threshold branch with the negated offset; only filters call clock steering; demobilize consumes the filter and reaches <=1 set_frequency; a servo without an offset sample cannot command the clock; every clock command of both filters is constant, finite by type, or dominated by an is_finite() check (finiteness as sanitizer dominance, not numerics).", "Trusted: rustc MIR."),
 "C14": ("other", "FSM extraction + control dependence on responder identity", "Decides: Faulty is entered only on a responder-identity mismatch for the current request and without touching measurement state; Faulty is left only at the single-responder recovery site (other exits are known findings); faulty ports fail every emitter guard; peer-delay formula operand wiring; stores into PeerDelayState are gated on the id match.", "Trusted: rustc MIR; engine/spec/formulas.json."),
 "C15": ("other", "control dependence + sibling agreement (MIR and HIR)", "Decides: ForwardTLV only under announce_propagate(); the propagate range table equals IEEE Table 52; every TLV append in send_announce is gated on margin and sender and paired with the margin decrement; the loop check precedes every effect; provider contract vs library assertion; minimum TLV size agrees across builder/parsers; both daemon port tasks use the forwarder alike.", "Trusted: rustc MIR/HIR."),
 "C16": ("other", "cast/shift ledger + type-derived scale agreement", "Decides two clauses: (no silent wrap) every narrowing cast / wrapping / saturating conversion in the time modules is range-discharged or listed; (scale) shift amounts equal the difference of the fixed-point types' fractional bits and the 10^9/10^6/10^3 constants agree across sibling conversions. Exactness of results is numeric and not decided.", "Trusted: rustc MIR; typenum arguments of the fixed types."),
 "C17": ("proof", "call-graph reachability + lock-order graph", "Proof of the stated clauses: no lock acquisition reachable inside any critical section (all 22 sites, call graph incl. closures and every in-workspace trait impl), BMCA path lock-free, lock-order graph acyclic, at most one data-set-writing critical section per library entry point, lock impls acquire once and release on all paths.", "Trusted: rustc MIR construction; call-graph resolution rules; host-provided trait impls do not re-enter the instance."),
 "C18": ("other", "statement-order/dataflow rules on the affine map", "Decides: re-anchoring folds the accumulated correction computed with the old anchor before moving it; the step offset enters the shift additively; the returned time is the post-adjustment reading; timestamp conversion goes through the map; the map depends on all four inputs. The numeric rate is not decided.", "Trusted: rustc MIR."),
 "C19": ("other", "field wiring + literal mapping + unit/accessor agreement", "Decides: snapshot getters copy same-named fields; observable enums map same-named variants; hand-written serde pairs are inverse; true is exported as 1; the Unit of each duration metric agrees with the accessor; Content-Length is the length of the body written. JSON value round trip not decided.", "Trusted: rustc MIR/HIR."),
 "C20": ("other", "typed-HIR loop/exit analysis", "Decides on the typed HIR of every accept loop: no per-connection I/O error can reach the function's return; every accumulate-read loop tests for EOF and leaves; no non-progress back edge; the error arm answers the client. Timing not decided.", "Trusted: rustc HIR/typeck; tokio runtime."),
}
NA = {
 "C01": "emergent convergence of a network of interacting instances over topologies, delays and fault scripts: no per-instance structural clause implies it and a network model would be a different technique family; its per-instance ingredients are decided under C05/C06/C08/C11/C12",
 "C02": "closed-loop numerical convergence and steady-state error of the Kalman servo over real-valued jitter realisations: quantifies over runtime trajectories no static argument in reach can bound; the only structural clause (slew, never step, below threshold) is decided under C13",
}
# a rule module is registered only when it is silent (or every report is a listed known finding) on the unchanged tree
ENABLED = set(open(os.path.join(V, "tools", "enabled.txt")).read().split())
checks = []
na = [{"property_id": k, "reason": v} for k, v in NA.items()]
for pid in sorted(META):
    if pid in ENABLED and os.path.exists(os.path.join(V, "engine", "rules", pid.lower() + ".py")):
        cat, tech, text, note = META[pid]
        checks.append({
            "property_id": pid,
            "quick_cmd": "./check %s --tier quick" % pid,
            "thorough_cmd": "./check %s --tier thorough" % pid,
            "evidence_file": "/verif/evidence/%s.json" % pid,
            "replay_cmd_template": "./check %s --explain {path}" % pid,
            "engine": "static-facts",
            "level_claimed": {"category": cat, "text": text, "design_ref": "DESIGN.md §4 %s" % pid},
            "level_note": note,
            "technique": "static analysis: " + tech,
        })
    else:
        na.append({"property_id": pid, "reason": "check not built yet in this round (static rules designed in DESIGN.md §4 %s); not claimed until the rule module exists" % pid})
m = {
 "version": 1,
 "setup_cmd": "./setup.sh",
 "hooks": {"guard": "none (static analysis reads the unmodified source; no hooks in /repo)", "enable": "n/a",
           "baseline_off_cmd": "cd /repo && cargo test --workspace --no-fail-fast --offline",
           "source_commits": [], "add_only": True},
 "engines": [
   {"name": "static-facts", "path": "engine/", "serves_properties": [c["property_id"] for c in checks],
    "kind_free_text": "rustc_private driver (engine/driver) exporting MIR/HIR/ADT/const facts of /repo's current working tree as JSON; python rule engine (engine/sa, engine/rules) with CFG, dominators, control dependence, typestate, provenance and call-graph analyses"}],
 "checks": checks,
 "not_applicable": sorted(na, key=lambda x: x["property_id"]),
 "notes": "All checks are static: they re-extract facts from /repo's working tree (content-hash cache under /verif/.cache) and never run the library. Exit 2 = internal failure of the machinery (not a verdict).",
}
json.dump(m, open(os.path.join(V, "MANIFEST.json"), "w"), indent=1)
print("checks:", [c["property_id"] for c in checks])
