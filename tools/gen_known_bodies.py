#!/usr/bin/env python3
"""Writes engine/spec/known_bodies.json: "unit|key" of every function body of the pinned tree in every configuration.
A function of the current tree that is not listed is NEW (see engine/sa/mirinline.py). Run only together with
tools/gen_names.py, when the vocabulary of the specs is deliberately re-based on a new tree."""
import os, sys, json
V = os.path.dirname(os.path.dirname(os.path.abspath(__file__)))
sys.path.insert(0, os.path.join(V, "engine"))
os.environ["VERIF_NO_INLINE"] = "1"
import runner  # noqa
out = set()
for cfg in ("default", "nostd", "fuzz"):
    prog = runner.load_program(cfg)
    for u in prog.units:
        for k, b in u.bodies.items():
            out.add("%s|%s" % (u.name, b.j["key"]))
json.dump(sorted(out), open(os.path.join(V, "engine", "spec", "known_bodies.json"), "w"), indent=0)
print(len(out), "bodies")
