#!/usr/bin/env python3
"""Writes engine/spec/names.json: the vocabulary (parameter names, named locals, closure capture names) of every
function of the pinned tree. The rules, spec tables, ledgers and known-finding keys are written in this vocabulary;
at load time the fact loader renames the CURRENT tree's locals back to it by position / by rank among locals of the
same type, so that renaming a parameter, a local or a captured variable does not change any canonical string.
Run only when the vocabulary of the specs is deliberately re-based on a new tree."""
import os, sys, json
V = os.path.dirname(os.path.dirname(os.path.abspath(__file__)))
sys.path.insert(0, os.path.join(V, "engine"))
os.environ["VERIF_NO_NAME_PINNING"] = "1"
import runner  # noqa
out = {}
for cfg in ("default",):
    prog = runner.load_program(cfg)
    for key, b in prog.bodies.items():
        if b.is_test():
            continue
        ent = {"argc": b.argc, "ret": b.ty(b.locals[0]["ty"])["s"], "unit": b.unit.name, "name": b.name, "closure": b.is_closure,
               "locals": [[i, b.ty(l["ty"])["s"], l["name"]] for i, l in enumerate(b.locals) if l.get("name")]}
        if b.is_closure:
            caps = {}
            for blk in b.blocks:
                for s in blk["stmts"]:
                    for pl in _places(s) if False else []:
                        pass
            ent["captures"] = sorted({(e[1], e[2]) for blk in b.blocks for p in __import__("sa.facts", fromlist=["x"]).iter_places(blk) for e in p["proj"][:2]
                                      if p["l"] == 1 and e[0] == "field" and isinstance(e[2], str) and not e[2].isdigit()})
        out[key] = ent
json.dump(out, open(os.path.join(V, "engine", "spec", "names.json"), "w"), indent=0, sort_keys=True)
print(len(out), "bodies")
