#!/bin/bash
# development aid: run checks against a scratch copy of /repo with one control (or seed) patch applied
# usage: tools/ctl.sh <control-id|seeded-id> [checks...]    (scratch copy kept in /tmp/sc/<id>; remove when done)
V="$(cd "$(dirname "${BASH_SOURCE[0]}")/.." && pwd)"
id=$1; shift
p=$V/validation/refactors/$id/patch.diff
[ -f $p ] || p=$V/seeded/$id/patch.diff
d=/tmp/sc/$id
if [ ! -d $d ]; then mkdir -p $d; rsync -a --exclude target --exclude .git /repo/ $d/; (cd $d && patch -p1 -s < $p) || echo PATCH-FAILED; fi
for c in "$@"; do VERIF_REPO=$d VERIF_EVIDENCE_DIR=/tmp/sc/ev-$id $V/check $c | grep -E "rule=|^  at |quick:" | cut -c1-600; done
