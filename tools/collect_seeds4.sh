#!/bin/bash
# round 4: /tmp/seed4out/Cnn/{A,B} -> /verif/seeded/Cnn-{G,H}, then verify each new one
for d in /tmp/seed4out/C*/[AB]; do
  [ -f $d/patch.diff ] || continue
  c=$(basename $(dirname $d)); v=$(basename $d | tr AB GH); id=$c-$v
  if [ ! -f /verif/seeded/$id/verified.txt ]; then
    mkdir -p /verif/seeded/$id; cp $d/* /verif/seeded/$id/
    echo "== $id"; /verif/tools/verify_seed.sh /verif/seeded/$id 2>&1 | tail -1
  fi
done
