#!/bin/bash
# builds the fact-extractor driver (offline, nightly toolchain with rustc-dev)
set -e
DIR="$(cd "$(dirname "${BASH_SOURCE[0]}")" && pwd)"
cd "$DIR/engine/driver"
CARGO_NET_OFFLINE=true cargo +nightly build --release --offline 2>&1 | tail -3
test -x target/release/statime-facts-driver
