"""Loading of the fact files written by engine/driver and basic wrappers (E2 of DESIGN.md)."""
import json, os, glob, collections


class Body:
    __slots__ = ("unit", "j", "key", "name", "self_name", "module", "trait", "blocks", "locals",
                 "argc", "promoted", "is_closure", "parent", "file", "line", "end_line", "types",
                 "_cfg", "path", "crate", "trait_ref", "_transp", "renames")

    def __init__(self, unit, j, key):
        self.unit = unit
        self.j = j
        self.key = key
        self.path = j["path"]
        self.name = j["name"]
        self.self_name = j.get("self_name")
        self.module = j["module"]
        self.trait = j.get("trait")
        self.trait_ref = j.get("trait_ref")
        self.blocks = j["blocks"]
        self.locals = j["locals"]
        self.argc = j["argc"]
        self.promoted = j["promoted"]
        self.is_closure = j["closure"]
        self.parent = j.get("parent")
        self.file = j["sp"][0]
        self.line = j["sp"][1]
        self.end_line = j["sp"][3]
        self.types = unit.types
        self.crate = unit.crate
        self._cfg = None
        self._transp = None
        self.renames = {}

    def ty(self, tid):
        return self.types[tid]

    def local_ty(self, l):
        return self.types[self.locals[l]["ty"]]

    def local_name(self, l):
        return self.locals[l].get("name")

    def loc(self):
        return "%s:%d" % (self.file, self.line)

    def is_test(self):
        return "::tests::" in self.key or self.key.endswith("::tests") or "::test::" in self.key

    def __repr__(self):
        return "<Body %s>" % self.key


class Unit:
    """One compiled crate target (lib or bin)."""

    def __init__(self, path):
        with open(path) as f:
            j = json.load(f)
        self.path = path
        self.crate = j["crate"]
        self.kind = "bin" if any("Executable" in t for t in j["crate_types"]) else "lib"
        self.name = "%s-%s" % (self.crate, self.kind)
        self.fn_renames = _pin_function_names(j, self.name)
        try:
            self.closure_renames = _pin_closure_keys(j, self.name)
        except Exception:
            self.closure_renames = {}
        self.types = j["types"]
        self.adts = {a["path"]: a for a in j["adts"]}
        self.impls = j["impls"]
        self.consts = {c["key"]: c for c in j["consts"]}
        self.traits = {t["path"]: t for t in j["traits"]}
        self.features = j["cargo_features"]
        self.hir = {}
        for h in j["hir"]:
            self.hir.setdefault(h["key"], h)
        self.bodies = collections.OrderedDict()
        self.const_bodies = {}          # MIR of const items (compile-time evaluated; never part of the run-time rules)
        seen = collections.Counter()
        for b in j["bodies"]:
            k = b["key"]
            if b.get("const_item"):
                self.const_bodies[k] = Body(self, b, k)
                continue
            seen[k] += 1
            if seen[k] > 1:
                k = "%s#%d" % (k, seen[k])
            self.bodies[k] = Body(self, b, k)


def iter_places(obj):
    """every MIR place dict ({"l":.., "proj":[..]}) inside a statement / terminator / operand json object"""
    if isinstance(obj, dict):
        if "l" in obj and "proj" in obj and isinstance(obj.get("proj"), list):
            yield obj
        for v in obj.values():
            for x in iter_places(v):
                yield x
    elif isinstance(obj, list):
        for v in obj:
            for x in iter_places(v):
                yield x


_PINNED = None


def pinned_names():
    global _PINNED
    if _PINNED is None:
        p = os.path.join(os.path.dirname(os.path.dirname(os.path.abspath(__file__))), "spec", "names.json")
        try:
            _PINNED = json.load(open(p)) if not os.environ.get("VERIF_NO_NAME_PINNING") else {}
        except (OSError, ValueError):
            _PINNED = {}
    return _PINNED


def _pin_function_names(j, unit_name):
    """A function of the pinned vocabulary that is missing from this unit, and exactly one NEW function in the same
    impl/module with the same parameter and return types: the function was renamed. Its key and name (and those of
    its closures, and every call descriptor naming it) are spelled the pinned way. Returns {new key: pinned key}."""
    pinned = pinned_names()
    if not pinned:
        return {}
    types = j["types"]

    def sig(b):
        ls = b["locals"]
        return (b["argc"], tuple(types[ls[i]["ty"]]["s"] for i in range(1, b["argc"] + 1)), types[ls[0]["ty"]]["s"])
    cur = {b["key"]: b for b in j["bodies"] if not b.get("closure") and not b.get("const_item")}
    missing = [k for k, e in pinned.items() if e.get("unit") == unit_name and not e.get("closure") and k not in cur
               and "::tests::" not in k]
    new = [k for k in cur if k not in pinned and "::tests::" not in k and "::test::" not in k]
    ren = {}
    for k in missing:
        e = pinned[k]
        prefix = k.rsplit("::", 1)[0]
        psig = (e["argc"], tuple(t for (i, t, n) in (tuple(x) for x in e["locals"]) if 1 <= i <= e["argc"]), e.get("ret"))
        # parameters may be unnamed in the pinned list (patterns): compare what is there
        cands = []
        for nk in new:
            if nk.rsplit("::", 1)[0] != prefix or nk in ren:
                continue
            s_ = sig(cur[nk])
            if s_[0] == psig[0] and s_[2] == psig[2] and (len(psig[1]) != s_[0] or s_[1] == psig[1]):
                cands.append(nk)
        if len(cands) == 1:
            ren[cands[0]] = k
    # a function that MOVED (to another module, into/out of an impl block, possibly renamed on the way): no candidate in
    # its old place, but exactly one new function of the whole unit has its full signature (all parameter types and the
    # return type, at least one parameter) and no other missing function shares that signature
    def full_sig_pinned(e):
        ps = {i: t for (i, t, n) in (tuple(x) for x in e["locals"]) if 1 <= i <= e["argc"]}
        if len(ps) != e["argc"] or e["argc"] < 1:
            return None
        return (e["argc"], tuple(ps[i] for i in range(1, e["argc"] + 1)), e.get("ret"))
    still_missing = [k for k in missing if k not in ren.values()]
    still_new = [k for k in new if k not in ren]
    sig_m = {}
    for k in still_missing:
        fs = full_sig_pinned(pinned[k])
        if fs is not None:
            sig_m.setdefault(fs, []).append(k)
    sig_n = {}
    for nk in still_new:
        sig_n.setdefault(sig(cur[nk]), []).append(nk)
    for fs, ks in sig_m.items():
        if len(ks) == 1 and len(sig_n.get(fs, [])) == 1:
            nk = sig_n[fs][0]
            # same name, or the only new function with that signature: taken as the moved one
            ren[nk] = ks[0]
    if not ren:
        return {}

    def fix(o):
        if isinstance(o, dict):
            for fld in ("key", "resolved", "parent"):
                v = o.get(fld)
                if isinstance(v, str):
                    for nk, ok in ren.items():
                        if v == nk or v.startswith(nk + "::"):
                            o[fld] = ok + v[len(nk):]
                            if fld == "key" and v == nk and isinstance(o.get("name"), str):
                                o["name"] = ok.rsplit("::", 1)[1]
            for v in o.values():
                fix(v)
        elif isinstance(o, list):
            for v in o:
                fix(v)
    fix(j["bodies"])
    fix(j.get("hir", []))
    fix(j.get("types", []))
    return ren


def _pin_closure_keys(j, unit_name):
    """Closures are numbered in source order within their parent, so adding or removing one (a closure replaced by
    a named function, a new local closure) shifts the keys of the others. Re-pair the closures of every parent with
    the pinned ones by signature (number of parameters, types of the named ones, return type), keeping the order,
    and spell their keys (and those of everything nested in them) the pinned way. Returns {current key: pinned key}."""
    import re
    pinned = pinned_names()
    if not pinned:
        return {}
    types = j["types"]
    ren_all = {}

    def direct(keys, parent):
        pre = parent + "::{closure#"
        out = []
        for k in keys:
            if k.startswith(pre) and k.endswith("}") and "::" not in k[len(pre):]:
                m = re.match(r"(\d+)\}$", k[len(pre):])
                if m:
                    out.append((int(m.group(1)), k))
        return [k for _, k in sorted(out)]

    def cur_sig(b):
        ls = b["locals"]
        return (b["argc"], {i: types[ls[i]["ty"]]["s"] for i in range(1, b["argc"] + 1)}, types[ls[0]["ty"]]["s"])

    def pin_sig(e):
        return (e["argc"], {i: t for (i, t, n) in (tuple(x) for x in e["locals"]) if 1 <= i <= e["argc"]}, e.get("ret"))

    def same(cs, ps):
        if cs[0] != ps[0] or cs[2] != ps[2]:
            return False
        return all(cs[1].get(i) == t or "closure" in t for i, t in ps[1].items() if i > 1)

    for _round in range(4):
        bodies = {b["key"]: b for b in j["bodies"] if b.get("closure")}
        pinned_cl = [k for k, e in pinned.items() if e.get("closure") and e.get("unit") == unit_name]
        parents = {k.rsplit("::{closure#", 1)[0] for k in list(bodies) + pinned_cl}
        ren = {}
        for par in sorted(parents):
            cur = direct(bodies, par)
            pin = direct(pinned_cl, par)
            if not pin or not cur:
                continue
            if len(cur) == len(pin) and all(c == p_ and same(cur_sig(bodies[c]), pin_sig(pinned[p_])) for c, p_ in zip(cur, pin)):
                continue
            used = set()
            pos = 0
            for c in cur:
                cs = cur_sig(bodies[c])
                hit = None
                for qi in range(pos, len(pin)):
                    if pin[qi] not in used and same(cs, pin_sig(pinned[pin[qi]])):
                        hit = qi
                        break
                if hit is None:
                    continue
                used.add(pin[hit])
                pos = hit + 1
                if pin[hit] != c:
                    ren[c] = pin[hit]
            # a current closure that keeps a key another one is renamed TO would collide: move it out of the way
            targets = set(ren.values())
            for c in cur:
                if c not in ren and c in targets:
                    ren[c] = c[:-1] + "-new}"
        if not ren:
            break
        ren_all.update(ren)
        tmp = {k: "\0%d\0" % i for i, k in enumerate(ren)}

        def fix(o, mapping):
            if isinstance(o, dict):
                for fld in ("key", "resolved", "parent", "path"):
                    v = o.get(fld)
                    if isinstance(v, str):
                        for a, b_ in mapping.items():
                            if v == a or v.startswith(a + "::"):
                                o[fld] = b_ + v[len(a):]
                                break
                for v in o.values():
                    fix(v, mapping)
            elif isinstance(o, list):
                for v in o:
                    fix(v, mapping)
        fix(j["bodies"], tmp)
        fix(j["bodies"], {tmp[k]: v for k, v in ren.items()})
        fix(j.get("hir", []), tmp)
        fix(j.get("hir", []), {tmp[k]: v for k, v in ren.items()})
        fix(j.get("types", []), tmp)
        fix(j.get("types", []), {tmp[k]: v for k, v in ren.items()})
    return ren_all


def pin_names(body):
    """rename parameters (by position), named locals (by rank among the named locals of the same type) and closure
    captures (by index) of `body` to the vocabulary of engine/spec/names.json - see tools/gen_names.py"""
    ent = pinned_names().get(body.key)
    if not ent:
        return
    cur = [(i, body.ty(l["ty"])["s"], l["name"]) for i, l in enumerate(body.locals) if l.get("name")]
    pin = [tuple(x) for x in ent["locals"]]
    # parameters by position
    if ent.get("argc") == body.argc:
        pp = {i: n for (i, t, n) in pin if 1 <= i <= body.argc}
        have = {n for (i, t, n) in cur if 1 <= i <= body.argc}
        for (i, t, n) in cur:
            if 1 <= i <= body.argc and i in pp:
                # a parameter that carries a pinned parameter name keeps it (the parameters may have been REORDERED,
                # see _undo_param_reorder); one that does not is the renamed parameter of that position
                if n in pp.values() or pp[i] in have:
                    continue
                if body.locals[i]["name"] != pp[i]:
                    body.renames[body.locals[i]["name"]] = pp[i]
                body.locals[i]["name"] = pp[i]
    # other named locals: by rank within their type, when the counts agree
    by_t_cur, by_t_pin = {}, {}
    for (i, t, n) in cur:
        if i > body.argc:
            by_t_cur.setdefault(t, []).append(i)
    for (i, t, n) in pin:
        if i > ent.get("argc", 0):
            by_t_pin.setdefault(t, []).append(n)
    for t, idxs in by_t_cur.items():
        names = by_t_pin.get(t)
        if names and len(names) == len(idxs):
            # names that are already in the pinned vocabulary stay (declarations may have been reordered); only the
            # ones that are not are paired, in order, with the pinned names that went missing
            have = [body.locals[i]["name"] for i in idxs]
            free_i = [i for i in idxs if body.locals[i]["name"] not in names]
            free_n = [n for n in names if n not in have]
            if len(free_i) != len(free_n) or len(set(have)) != len(have) or len(set(names)) != len(names):
                if len(set(have)) == len(have) and len(set(names)) == len(names):
                    continue
                free_i, free_n = idxs, names        # shadowed duplicates: positional, as recorded
            for i, n in zip(free_i, free_n):
                if body.locals[i]["name"] != n:
                    body.renames[body.locals[i]["name"]] = n
                body.locals[i]["name"] = n
    # closure captures by index
    caps = {i: n for (i, n) in (tuple(x) for x in ent.get("captures", []))}
    if body.is_closure and caps:
        cur_caps = set()
        for blk in body.blocks:
            for p in iter_places(blk):
                if p["l"] == 1:
                    for e in p["proj"][:2]:
                        if e[0] == "field" and isinstance(e[2], str) and not e[2].isdigit():
                            cur_caps.add((e[1], e[2]))
        cur_by_i = dict(sorted(cur_caps))
        pinned = [caps[i] for i in sorted(caps)]
        # captures already spelled the pinned way stay (the capture ORDER follows first use and may change); the
        # others are paired, in index order, with the pinned names that went missing
        free_i = [i for i in sorted(cur_by_i) if cur_by_i[i] not in pinned]
        free_n = [n for n in pinned if n not in cur_by_i.values()]
        if free_i and len(free_i) == len(free_n):
            ren = dict(zip(free_i, free_n))
            # a captured variable is a RENAMED one only when it has the type the pinned capture had in the parent
            # (a closure that now captures a Duration computed outside instead of the i8 it was computed from captures
            # another variable, not a renamed one)
            try:
                prog_ = getattr(body.unit, "prog", None)
                par = next((b_ for b_ in prog_.bodies.values() if b_.unit is body.unit and b_.j["key"] == body.parent), None)
                pent = pinned_names().get(par.key) if par is not None else None
                if par is not None and pent:
                    ptypes = {}
                    for (i_, t_, n_) in (tuple(x) for x in pent["locals"]):
                        ptypes.setdefault(n_, t_)
                    ctypes = {}
                    for i_, l_ in enumerate(par.locals):
                        if l_.get("name"):
                            ctypes.setdefault(l_["name"], par.ty(l_["ty"])["s"])
                    for i_ in list(ren):
                        cn = cur_by_i[i_][len("_ref__"):] if cur_by_i[i_].startswith("_ref__") else cur_by_i[i_]
                        pn = ren[i_][len("_ref__"):] if ren[i_].startswith("_ref__") else ren[i_]
                        if cn in ctypes and pn in ptypes and ctypes[cn] != ptypes[pn]:
                            del ren[i_]
            except Exception:
                pass
            for blk in body.blocks:
                for p in iter_places(blk):
                    if p["l"] == 1:
                        for e in p["proj"][:2]:
                            if e[0] == "field" and isinstance(e[2], str) and not e[2].isdigit() and e[1] in ren:
                                e[2] = ren[e[1]]


def _undo_param_reorder(prog):
    """A function whose parameters are exactly the pinned ones in ANOTHER ORDER (all named, no duplicates, same count):
    the rules, positional spec strings (`arg3.sequence_id`) and call-site checks are written for the pinned order, so the
    body's parameter locals are permuted back and the arguments of every call of it are permuted the same way.
    Returns {function key: {current position: pinned position}}."""
    pinned = pinned_names()
    out = {}
    for b in list(prog.bodies.values()):
        if b.is_closure or b.is_test():
            continue
        ent = pinned.get(b.key)
        if not ent or ent.get("argc") != b.argc or b.argc < 2:
            continue
        pp = {i: n for (i, t, n) in (tuple(x) for x in ent["locals"]) if 1 <= i <= b.argc}
        cur = {i: b.locals[i].get("name") for i in range(1, b.argc + 1)}
        if len(pp) != b.argc or None in cur.values() or len(set(cur.values())) != b.argc or \
                set(cur.values()) != set(pp.values()) or len(set(pp.values())) != b.argc:
            continue
        if all(cur[i] == pp[i] for i in cur):
            continue
        inv = {n: i for i, n in pp.items()}
        perm = {i: inv[cur[i]] for i in cur}            # current position -> pinned position
        # the body: renumber the parameter locals
        def f(o):
            if isinstance(o, dict):
                if "l" in o and isinstance(o.get("proj"), list) and isinstance(o["l"], int):
                    o["l"] = perm.get(o["l"], o["l"])
                    for e in o["proj"]:
                        if e and e[0] == "index" and isinstance(e[1], int):
                            e[1] = perm.get(e[1], e[1])
                for v in o.values():
                    f(v)
            elif isinstance(o, list):
                for v in o:
                    f(v)
        f(b.blocks)
        old_locals = list(b.locals)
        for i, pi in perm.items():
            b.locals[pi] = old_locals[i]
        # the call sites
        key = b.j["key"]
        for c in prog.bodies.values():
            if c.unit.crate != b.unit.crate and c.unit is not b.unit:
                continue
            for blk in c.blocks:
                t = blk["term"]
                if t["k"] != "call" or not isinstance(t.get("func"), dict):
                    continue
                fn = t["func"].get("fn")
                if not fn or (fn.get("resolved") or fn.get("key")) != key or len(t["args"]) != b.argc:
                    continue
                args = list(t["args"])
                for i, pi in perm.items():
                    t["args"][pi - 1] = args[i - 1]
        out[b.key] = perm
    return out


class Program:
    """All units of one configuration. Bodies are addressed by key; the statime-linux binary crate
    is also called `statime`, so its keys are prefixed with `bin:`."""

    def __init__(self, facts_dir):
        self.dir = facts_dir
        self.units = []
        for p in sorted(glob.glob(os.path.join(facts_dir, "*.json"))):
            self.units.append(Unit(p))
        self.bodies = collections.OrderedDict()
        self.unit_by_name = {u.name: u for u in self.units}
        self.const_bodies = {}
        for u in self.units:
            u.prog = self
            for k, b in u.const_bodies.items():
                self.const_bodies.setdefault(k, b)
        self._opaque = None
        for u in self.units:
            for k, b in u.bodies.items():
                kk = k
                if kk in self.bodies:
                    kk = "%s:%s" % (u.kind, k)
                    b.key = kk
                self.bodies[kk] = b
        for b in list(self.bodies.values()):
            try:
                pin_names(b)
            except Exception:
                pass
        try:
            self.param_reorders = _undo_param_reorder(self)
        except Exception as e:
            self.param_reorders = {"error": repr(e)}
        # the field names of closure aggregates in the parents follow the closures' (pinned) capture names
        pn = pinned_names()
        for b in self.bodies.values():
            for blk in b.blocks:
                for st in blk["stmts"]:
                    r = st.get("r") if isinstance(st, dict) else None
                    if r and r.get("k") == "agg" and r.get("ak") == "closure":
                        ent = pn.get(r.get("key")) or {}
                        caps = {i: n for (i, n) in (tuple(x) for x in ent.get("captures", []))}
                        fs = r.get("fields") or []
                        if caps and fs:
                            # the aggregate's field names are whatever the closure body (after pinning) calls them
                            cb_ = next((x for x in self.bodies.values() if x.unit is b.unit and x.j["key"] == r.get("key")), None)
                            used = {}
                            if cb_ is not None:
                                for blk2 in cb_.blocks:
                                    for p_ in iter_places(blk2):
                                        if p_["l"] == 1:
                                            for e_ in p_["proj"][:2]:
                                                if e_[0] == "field" and isinstance(e_[2], str) and not e_[2].isdigit():
                                                    used[e_[1]] = e_[2]
                            r["fields"] = [used.get(i, f) for i, f in enumerate(fs)]
        # functions that did not exist in the pinned tree are inlined into their callers (engine/sa/mirinline.py)
        from . import mirinline as _inline
        try:
            self.inline_report = _inline.inline_new_functions(self)
        except Exception as e:          # fail open to the un-inlined program: the rules then see the helper as it is
            self.inline_report = {"error": [repr(e)]}
        self.adts = {}
        self.consts = {}
        self.impls = []
        self.hir = {}
        for u in self.units:
            for k, a in u.adts.items():
                self.adts.setdefault(k, (u, a))
            for k, c in u.consts.items():
                self.consts.setdefault(k, c)
            for i in u.impls:
                self.impls.append((u, i))
            for k, h in u.hir.items():
                if k in self.hir:
                    k = "%s:%s" % (u.kind, k)
                self.hir[k] = (u, h)

    def unit(self, name):
        return self.unit_by_name[name]

    def opaque_names(self):
        """Identifiers that some rule, spec table, reviewed ledger or known-findings key refers to. A function whose
        name is in this set keeps its identity in expression trees (the rules know it by name and check it on its
        own); every OTHER small pure in-workspace function is transparent: calls of it are replaced by its result
        expression (dataflow.Prov) and its stores are attributed to the caller (stores.stores), so extracting a helper,
        inlining one or naming a sub-expression does not change what the rules see."""
        if self._opaque is None:
            import re
            root = os.path.dirname(os.path.dirname(os.path.abspath(__file__)))
            verif = os.path.dirname(root)
            names = set()
            files = glob.glob(os.path.join(root, "spec", "*.json")) + glob.glob(os.path.join(root, "tables", "*.txt")) + \
                glob.glob(os.path.join(root, "rules", "*.py")) + glob.glob(os.path.join(root, "sa", "*.py")) + \
                [os.path.join(verif, "known_findings.json")]
            import ast
            for f in files:
                try:
                    txt = open(f).read()
                except OSError:
                    continue
                if f.endswith(".py"):
                    # only what the rules SAY (string literals: anchors, regexes, canonical forms), not how the
                    # Python happens to be written (variable names, docstrings, comments)
                    try:
                        tree = ast.parse(txt)
                    except SyntaxError:
                        names.update(re.findall(r"[A-Za-z_][A-Za-z0-9_]*", txt))
                        continue
                    doc = set()
                    for node in ast.walk(tree):
                        if isinstance(node, (ast.Module, ast.FunctionDef, ast.ClassDef)) and node.body and \
                                isinstance(node.body[0], ast.Expr) and isinstance(getattr(node.body[0], "value", None), ast.Constant) \
                                and isinstance(node.body[0].value.value, str):
                            doc.add(id(node.body[0].value))
                    for node in ast.walk(tree):
                        if isinstance(node, ast.Constant) and isinstance(node.value, str) and id(node) not in doc:
                            names.update(re.findall(r"[A-Za-z_][A-Za-z0-9_]*", node.value))
                else:
                    names.update(re.findall(r"[A-Za-z_][A-Za-z0-9_]*", txt))
            self._opaque = names
        return self._opaque

    def find(self, name=None, self_name=None, crate=None, module_contains=None, trait=None,
             closures=False, include_tests=False):
        out = []
        for b in self.bodies.values():
            if not closures and b.is_closure:
                continue
            if name is not None and b.name != name:
                continue
            if self_name is not None and b.self_name != self_name:
                continue
            if crate is not None and b.unit.name != crate and b.crate != crate:
                continue
            if module_contains is not None and module_contains not in b.module:
                continue
            if trait is not None and (b.trait or "").split("::")[-1] != trait and b.trait != trait:
                continue
            if not include_tests and b.is_test():
                continue
            out.append(b)
        return out

    def one(self, **kw):
        r = self.find(**kw)
        if not r and kw.get("self_name") and kw.get("name"):
            # the function may have moved out of (or into) an impl block: a unique function of that name in the crate
            kw2 = dict(kw)
            kw2.pop("self_name")
            r2 = self.find(**kw2)
            if len(r2) == 1:
                r = r2
        if len(r) != 1:
            raise AnchorMissing("expected exactly one body for %r, found %d: %s" % (kw, len(r), [b.key for b in r]))
        return r[0]

    def closures_of(self, body, recursive=True):
        out = []
        for b in self.bodies.values():
            if b.is_closure and b.unit is body.unit and b.parent == body.j["key"]:
                out.append(b)
                if recursive:
                    out.extend(self.closures_of(b))
        return out

    def const_value(self, name_suffix):
        for k, c in self.consts.items():
            if k.endswith(name_suffix) and "v" in c:
                return c["v"]
        raise AnchorMissing("constant %s not found / not evaluated" % name_suffix)


class AnchorMissing(Exception):
    pass
