"""A-LEN: interprocedural slice-length requirements.

A length SITE is a construct that needs `len(subject) >= need`: a BoundsCheck assert, a range index / index_mut /
split_at(_mut) with constant bounds, copy_from_slice with equal exact lengths. `have()` computes the lower bound
on the subject's length that holds on every path to the site (literals, exact sub-slice lengths, array types,
split_at_mut/get results). When the subject is a bare slice PARAMETER and the local bound is insufficient the
requirement becomes REQ(function, parameter) and is checked at every call site (propagating further when the
argument is again a bare slice parameter)."""
from . import mir, dataflow as df, conds as cnd


def norm_len(s):
    return s.replace("ptrmetadata(", "len(").replace("cast<&[u8]>", "").replace("cast<&mut [u8]>", "")


def is_slice_param(body, tree):
    t = df.strip(tree)
    if t[0] == "path" and t[1][0] == "arg" and not [x for x in t[2] if x != "*"]:
        ty = body.local_ty(t[1][1])
        while ty["k"] == "ref":
            ty = body.ty(ty["to"])
        if ty["k"] == "slice":
            return t[1][1]
    return None


def range_need(rng_t):
    """(start, end_exclusive or None) of a constant range aggregate tree"""
    r = df.strip(rng_t)
    if r[0] != "agg" or r[1] not in ("Range", "RangeTo", "RangeFrom", "RangeInclusive", "RangeToInclusive", "RangeFull"):
        return None
    if r[1] == "RangeFull":
        return (0, 0, True)
    f = dict(r[3])
    st = df._num(f["start"]) if "start" in f else 0
    en = df._num(f["end"]) if "end" in f else None
    if st is None:
        return None
    if r[1] == "RangeFrom":
        return (int(st), int(st), False)      # needs len >= start; result length unknown
    if en is None or en < st:
        return None
    inc = 1 if "Inclusive" in r[1] else 0
    return (int(st), int(en) + inc, True)


class Lens:
    def __init__(self, prog, body):
        self.prog = prog
        self.b = body
        self.c = cnd.conds(prog, body)
        self.pv = self.c.prov
        self.d = df.defs(body)

    def literal_bound(self, bi, subject_s):
        best = 0
        want = norm_len("len(%s)" % subject_s)
        for l in self.c.must_literals(bi):
            if l[0] != "cmp":
                continue
            a, k = norm_len(df.canon(l[2], self.b)), df.strip(l[3])
            if k[0] != "const":
                kv = df._num(k)
                if kv is None or kv.denominator != 1:
                    continue
                k = ("const", int(kv))
            if k[0] != "const" or not isinstance(k[1], int) or isinstance(k[1], bool):
                continue
            if a != want:
                # the same comparison with the depth cut of canon() aligned: compare the operand of len() itself
                lt = df.strip(l[2])
                inner = lt[3][0] if (lt[0] == "call" and lt[2] == "len" and len(lt[3]) == 1) else \
                    (lt[2] if (lt[0] == "un" and lt[1] == "PtrMetadata") else None)
                if inner is None or norm_len(df.canon(df.strip(inner), self.b)) != norm_len(subject_s):
                    continue
            if l[1] in ("ge", "eq"):
                best = max(best, k[1])
            elif l[1] == "gt":
                best = max(best, k[1] + 1)
        return best

    def have(self, bi, tree, depth=0):
        """(lower bound, exact or None) for the length of the slice denoted by tree at block bi"""
        t = df.strip(tree)
        if depth > 8:
            return (0, None)
        lb = self.literal_bound(bi, df.canon(t, self.b))
        if t[0] == "call" and t[2] in ("index", "index_mut", "get", "get_mut") and len(t[3]) == 2:
            rn = range_need(t[3][1])
            if rn is not None:
                st, en, exact = rn
                if exact:
                    return (max(lb, en - st), en - st)
                base_lb, base_ex = self.have(bi, t[3][0], depth + 1)
                if base_ex is not None:
                    return (max(lb, base_ex - st), base_ex - st)
                return (max(lb, base_lb - st, 0), None)
        if t[0] == "call" and t[2] in ("branch", "ok_or", "unwrap", "expect", "as_ref", "as_mut", "deref", "deref_mut",
                                         "as_slice", "as_mut_slice", "borrow", "into") and t[3]:
            x = self.have(bi, t[3][0], depth + 1)
            return (max(lb, x[0]), x[1])
        if t[0] == "field":
            inner = df.strip(t[1])
            if t[2] in ("0", "1") and inner[0] == "call" and inner[2] in ("split_at_mut", "split_at") and len(inner[3]) == 2:
                k = df._num(inner[3][1])
                base_lb, base_ex = self.have(bi, inner[3][0], depth + 1)
                if k is not None:
                    k = int(k)
                    if t[2] == "0":
                        return (max(lb, k), k)
                    if base_ex is not None:
                        return (max(lb, base_ex - k), base_ex - k)
                    return (max(lb, base_lb - k, 0), None)
                return (lb, None)
            x = self.have(bi, t[1], depth + 1)
            if t[2].isdigit() or t[2].startswith("as "):
                return (max(lb, x[0]), x[1])
        if t[0] == "cast":
            x = self.have(bi, t[2], depth + 1)
            return (max(lb, x[0]), x[1])
        if t[0] == "agg" and t[1] == "array":
            return (len(t[3]), len(t[3]))
        if t[0] == "phi":
            xs = [self.have(bi, s, depth + 1) for s in t[1]]
            return (max(lb, min(x[0] for x in xs)), None)
        return (lb, None)

    def have_operand(self, bi, op):
        p = mir.op_place(op)
        if p is not None:
            ty = self.b.ty(p["ty"])
            while ty["k"] == "ref":
                ty = self.b.ty(ty["to"])
            if ty["k"] == "array" and isinstance(ty.get("len"), int):
                return (ty["len"], ty["len"])
            n = self._unsized(op)
            if n is not None:
                return (n, n)
        return self.have(bi, self.pv.op_tree(op))

    def _unsized(self, op, depth=0):
        p = mir.op_place(op)
        if p is None or p["proj"] or depth > 6:
            return None
        ds = self.d.whole.get(p["l"], [])
        if len(ds) != 1 or ds[0][2][0] != "assign":
            return None
        r = ds[0][2][1]
        if r["k"] == "cast" and "Unsize" in r["ck"]:
            sp = mir.op_place(r["op"])
            if sp is not None:
                t = self.b.ty(sp["ty"])
                while t["k"] == "ref":
                    t = self.b.ty(t["to"])
                if t["k"] == "array" and isinstance(t.get("len"), int):
                    return t["len"]
            return None
        if r["k"] == "use":
            return self._unsized(r["op"], depth + 1)
        return None
