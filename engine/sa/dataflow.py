"""A-PROV: reaching definitions, access-path resolution and expression trees over MIR (DESIGN.md §3).

An expression tree is a nested tuple:
  ("path", root, fields)   root = ("arg", i) | ("local", l) | ("static", key); fields = tuple of field/variant names
  ("const", value) | ("constdef", key) | ("fnptr", key)
  ("call", callee_key, callee_name, (arg trees...))
  ("bin", op, l, r) | ("un", op, x) | ("cast", kind, tree, ty_string)
  ("agg", kind_name, variant, ((field, tree)...))
  ("ref", tree)            address of (kept only when it cannot be folded into a path)
  ("discr", tree)
  ("phi", (trees...))      several reaching definitions
  ("unknown", why)
"""
from . import mir

MAX_DEPTH = 150
OPASSIGN = {"add_assign": "add", "sub_assign": "sub", "mul_assign": "mul", "div_assign": "div"}


class Defs:
    """Definitions of each local in a body: assignments to the bare local (or to a projection of it) and call
    destinations."""

    def __init__(self, body, blocks=None):
        self.body = body
        self.blocks = blocks if blocks is not None else body.blocks
        self.whole = {}     # local -> list of (bb, idx, ("assign", rvalue) | ("call", term))
        self.partial = {}   # local -> list of (bb, idx, place, rvalue)   (assignments to projections)
        self.mut_borrowed = set()
        self.opassign_calls = []   # (bb, ref_local, opname, term)
        self.opassign = {}         # target local -> list of (bb, opname, operand)
        for bi, b in enumerate(self.blocks):
            if b["cleanup"]:
                continue
            for si, s in enumerate(b["stmts"]):
                if s["k"] != "assign":
                    continue
                p = s["p"]
                if not p["proj"]:
                    self.whole.setdefault(p["l"], []).append((bi, si, ("assign", s["r"])))
                else:
                    if not any(e[0] == "deref" for e in p["proj"]):
                        self.partial.setdefault(p["l"], []).append((bi, si, p, s["r"]))
                r = s["r"]
                if r["k"] == "ref" and r["mut"] and not any(e[0] == "deref" for e in r["p"]["proj"]):
                    self.mut_borrowed.add(r["p"]["l"])
            t = b["term"]
            if t["k"] == "call":
                c0 = mir.callee_of(t)
                if c0 is not None and c0["name"] in OPASSIGN and len(t["args"]) == 2:
                    a0 = mir.op_place(t["args"][0])
                    if a0 is not None and not a0["proj"]:
                        self.opassign_calls.append((bi, a0["l"], c0["name"], t))
                d = t["dest"]
                if not d["proj"]:
                    self.whole.setdefault(d["l"], []).append((bi, len(b["stmts"]), ("call", t)))
                else:
                    self.partial.setdefault(d["l"], []).append((bi, len(b["stmts"]), d, {"k": "callres", "t": t}))

    def finish(self):
        # resolve `_r = &mut _L; add_assign(move _r, v)` into an in-place update of _L
        only_opassign_borrow = {}
        for (bi, rl, name, t) in self.opassign_calls:
            ds = self.whole.get(rl, [])
            if len(ds) == 1 and ds[0][2][0] == "assign" and ds[0][2][1]["k"] == "ref" and ds[0][2][1]["mut"]:
                tp = ds[0][2][1]["p"]
                if not tp["proj"]:
                    self.opassign.setdefault(tp["l"], []).append((bi, name, t["args"][1]))
                    only_opassign_borrow.setdefault(tp["l"], set()).add(rl)
        # a local whose only &mut borrows feed op-assign calls is not "arbitrarily mutated"
        for L, refs in only_opassign_borrow.items():
            n_borrows = 0
            for b in self.blocks:
                for s in b["stmts"]:
                    if s["k"] == "assign" and s["r"]["k"] == "ref" and s["r"]["mut"] and not s["r"]["p"]["proj"] \
                            and s["r"]["p"]["l"] == L:
                        n_borrows += 1
            if n_borrows == len(refs):
                self.mut_borrowed.discard(L)
        return self

    def single(self, l):
        d = self.whole.get(l, [])
        if len(d) == 1 and l not in self.partial:
            return d[0]
        return None


_DEFS = {}


def defs(body):
    k = id(body)
    if k not in _DEFS:
        _DEFS[k] = Defs(body).finish()
    return _DEFS[k]


def _proj_names(proj):
    out = []
    for e in proj:
        if e[0] == "field":
            out.append(e[2])
        elif e[0] == "downcast":
            out.append("as " + e[1])
        elif e[0] == "index":
            out.append("[_%d]" % e[1])
        elif e[0] == "cidx":
            out.append("[%s%d]" % ("-" if e[3] else "", e[1]))
        elif e[0] == "subslice":
            out.append("[%d..%s%d]" % (e[1], "-" if e[3] else "", e[2]))
        elif e[0] == "deref":
            out.append("*")
        else:
            out.append("?")
    return out


class Prov:
    """Expression-tree builder for one body. `captures` optionally maps closure-capture field names to trees
    evaluated in the parent's context."""

    def __init__(self, body, captures=None):
        self.body = body
        self.d = defs(body)
        self.captures = captures
        self._memo = {}
        self._stack = set()
        self._frames = []

    # ---- places
    def _index_const(self, l):
        ds = self.d.whole.get(l, [])
        if len(ds) == 1 and ds[0][2][0] == "assign" and ds[0][2][1]["k"] == "use":
            v = mir.op_const(ds[0][2][1]["op"])
            if isinstance(v, int) and not isinstance(v, bool):
                return v
        return None

    def place_tree(self, p, depth=0):
        """Tree for the value stored at place p."""
        l = p["l"]
        names = _proj_names(p["proj"])
        for i, e in enumerate(p["proj"]):
            if e[0] == "index":
                v = self._index_const(e[1])
                if v is not None:
                    names[i] = "[%d]" % v
                else:
                    # an index that is a bare parameter: remembered by position, so that reading this body through a
                    # call with a constant argument (a local closure `flag(6, 0)`) yields the constant index
                    it = strip(self.local_tree(e[1], depth + 1))
                    if it[0] == "path" and it[1][0] == "arg" and not it[2]:
                        names[i] = "[@arg%d]" % it[1][1]
                    elif it[0] == "const" and isinstance(it[1], int) and not isinstance(it[1], bool):
                        names[i] = "[%d]" % it[1]
        base = self.local_tree(l, depth + 1)
        t = self._project(base, names)
        if self.body.is_closure and t[0] == "path" and t[1] == ("env",) and t[2]:
            t = self._lifted_capture(t)
        return t

    def _lifted_capture(self, t):
        """A closure that captures a local which the parent merely LIFTED out of another variable
        (`let sender = announce.header.source_port_identity;` ... `|state| .. sender ..`): spell it as the projection of
        that variable, `env._ref__announce.header.source_port_identity`, which is what the closure reads when the
        sub-expression is not lifted. Only pure field projections of a named parent variable qualify."""
        t_orig = t
        lead = 0
        while lead < len(t[2]) and t[2][lead] == "*":
            lead += 1
        if lead >= len(t[2]):
            return t_orig
        t = ("path", t[1], t[2][lead:])
        cap = t[2][0]
        name = cap[len("_ref__"):] if cap.startswith("_ref__") else cap
        body = self.body
        prog = getattr(getattr(body, "unit", None), "prog", None)
        if prog is None or not body.parent or getattr(self, "_no_lift", False):
            return t_orig
        cache = prog.__dict__.setdefault("_lift_cache", {})
        ck = (body.unit.name, body.parent, name)
        if ck not in cache:
            res = None
            par = next((b for b in prog.bodies.values() if b.unit is body.unit and b.j["key"] == body.parent), None)
            if par is not None:
                idx = [i for i, l in enumerate(par.locals) if l.get("name") == name]
                if len(idx) == 1 and idx[0] > par.argc:
                    d = defs(par)
                    ds = d.whole.get(idx[0], [])
                    if len(ds) == 1 and ds[0][2][0] == "assign" and ds[0][2][1]["k"] == "use" and \
                            idx[0] not in d.partial and idx[0] not in d.mut_borrowed:
                        src = mir.op_place(ds[0][2][1]["op"])
                        if src is not None and par.local_name(src["l"]) and par.local_name(src["l"]) != name:
                            flds = _proj_names(src["proj"])
                            if flds and all(f == "*" or (not f.startswith("[") and not f.startswith("as ")) for f in flds):
                                res = (par.local_name(src["l"]), tuple(flds))
            cache[ck] = res
        res = cache[ck]
        if res is None:
            return t_orig
        y, flds = res
        rest = t[2][1:]
        if cap.startswith("_ref__") and rest and rest[0] == "*":
            rest = rest[1:]
        return ("path", ("env",), ("_ref__" + y, "*") + flds + tuple(rest))

    def _project(self, base, names):
        t = base
        for n in names:
            t = self._project1(t, n)
        return t

    def _project1(self, t, n):
        k = t[0]
        if n == "*":
            if k == "ref":
                return t[1]
            if k == "path":
                return ("path", t[1], t[2] + ("*",))
            if k == "phi":
                return ("phi", tuple(self._project1(x, n) for x in t[1]))
            return ("deref", t)
        if k == "path":
            return ("path", t[1], t[2] + (n,))
        if k == "agg":
            # field of an aggregate: select the operand
            if n.startswith("as "):
                return t
            for (f, sub) in t[3]:
                if f == n:
                    return sub
            return ("field", t, n)
        if k == "phi":
            if n.startswith("as "):
                # a downcast selects the alternatives that were built as that variant: `(x as Some).0` of
                # phi(None | Some{0: v}) is v (the other alternatives cannot reach a use of the payload)
                want = n[3:]
                alts = [x for x in t[1] if not (strip(x)[0] == "agg" and strip(x)[2] and strip(x)[2] != want)]
                if alts and len(alts) < len(t[1]):
                    if len(alts) == 1:
                        return self._project1(alts[0], n)
                    return ("phi", tuple(self._project1(x, n) for x in alts))
            return ("phi", tuple(self._project1(x, n) for x in t[1]))
        return ("field", t, n)

    def local_tree(self, l, depth=0):
        """Tree of local l. A loop-carried local is cut at its second occurrence on the evaluation stack, so a tree
        depends on the stack it was built under; the memo is therefore CONTEXT-EXACT: an entry records the cuts it
        hit (H) and the locals it visited (V) and is reused only under a stack S with H <= S and V disjoint from S,
        where a fresh evaluation would yield the identical tree. Trees are thus independent of the order in which
        a rule happens to ask for them (a refactoring that reorders statements cannot respell them)."""
        if depth > MAX_DEPTH:
            return ("unknown", "depth")
        S = self._stack
        fr = self._frames
        if l in S:
            # loop-carried value: keep its identity as an opaque local
            if fr:
                fr[-1][0].add(l)
            return ("path", ("local", l), ())
        for (H, V, t) in self._memo.get(l, ()):
            if H <= S and V.isdisjoint(S):
                if fr:
                    fr[-1][0].update(H)
                    fr[-1][1].update(V)
                return t
        frame = (set(), {l})
        fr.append(frame)
        # Only locals that can head a def-use cycle (several definitions, parameters that are reassigned, op-assigned
        # or partially written ones) are cut points. A single-definition temporary is re-evaluated instead, so the
        # spelling of a loop-carried value does not depend on which temporary of the loop body a rule started from.
        cut = self._cuttable(l)
        if cut:
            S.add(l)
        try:
            t = self._local_tree_raw(l, depth)
        finally:
            if cut:
                S.discard(l)
            fr.pop()
        H = frozenset(frame[0] - {l})
        V = frozenset(frame[1])
        self._memo.setdefault(l, []).append((H, V, t))
        if fr:
            fr[-1][0].update(H)
            fr[-1][1].update(V)
        return t

    def _cuttable(self, l):
        d = self.d
        n = len(d.whole.get(l, ())) + (1 if 1 <= l <= self.body.argc else 0)
        return n != 1 or l in d.partial or l in d.mut_borrowed or bool(d.opassign.get(l))

    def _local_tree_raw(self, l, depth):
        body = self.body
        if 1 <= l <= body.argc and not self.d.whole.get(l):
            if body.is_closure and l == 1:
                return ("path", ("env",), ())
            return ("path", ("arg", l), ())
        ds = self.d.whole.get(l, [])
        if True:
            trees = []
            if 1 <= l <= body.argc:
                trees.append(("path", ("arg", l), ()))
            for (bi, si, d) in ds:
                if d[0] == "assign":
                    trees.append(self.rvalue_tree(d[1], depth + 1))
                else:
                    trees.append(self.call_tree(d[1], depth + 1))
            if l in self.d.partial or l in self.d.mut_borrowed:
                # locals that are also written field-wise or through &mut: value not a pure function of defs
                if not trees:
                    t = ("path", ("local", l), ())
                elif l in self.d.partial:
                    t = ("phi", tuple(trees + [("path", ("local", l), ())]))
                else:
                    # mutated through a &mut borrow: the defining expression is not its value any more
                    t = ("path", ("local", l), ())
            elif not trees:
                t = ("path", ("local", l), ())
            elif len(trees) == 1:
                t = trees[0]
            else:
                uniq = []
                for x in trees:
                    if x not in uniq:
                        uniq.append(x)
                t = uniq[0] if len(uniq) == 1 else ("phi", tuple(uniq))
                if len(uniq) == 2 and set(uniq) == {("const", True), ("const", False)} and not (1 <= l <= body.argc):
                    m = self._matches_meaning(ds, depth) if len(ds) == 2 else None
                    if m is None:
                        m = self._bool_dnf(l, ds)
                    if m is not None:
                        t = m
                elif len(uniq) == 2 and len(ds) == 2 and not (1 <= l <= body.argc):
                    m = self._then_some_meaning(ds, uniq, depth)
                    if m is None:
                        m = self._short_circuit_meaning(ds, depth)
                    if m is not None:
                        t = m
            ops = self.d.opassign.get(l)
            if ops:
                g = mir.CFG(self.body) if not hasattr(self.body, "_cfg") else mir.cfg(self.body)
                for (bi, name, operand) in ops:
                    in_loop = bi in g.reachable_from(g.succ[bi][0]) if g.succ[bi] else False
                    if in_loop or len(ops) > 1:
                        t = ("unknown", "accumulated:_%d" % l)
                        break
                    t = ("call", "core::ops::%s" % OPASSIGN[name], OPASSIGN[name], (t, self.op_tree(operand, depth + 1)))
        return t

    def _matches_meaning(self, ds, depth):
        """`matches!(x, Enum::V)` on a field-less variant compiles to: switch on discriminant(x), one arm storing
        `true`, the other `false`. Give that bool the same tree as `x == Enum::V` (a call of PartialEq::eq), so the two
        spellings of the test are indistinguishable to the rules."""
        body = self.body
        prog = getattr(getattr(body, "unit", None), "prog", None)
        if prog is None or not hasattr(body, "blocks"):
            return None
        tb = [bi for (bi, si, d) in ds if d[0] == "assign" and d[1]["k"] == "use" and mir.op_const(d[1]["op"]) is True]
        fb = [bi for (bi, si, d) in ds if d[0] == "assign" and d[1]["k"] == "use" and mir.op_const(d[1]["op"]) is False]
        if len(tb) != 1 or len(fb) != 1:
            return None
        preds = [i for i, b in enumerate(body.blocks) if tb[0] in mir.term_succs(b["term"])]
        if len(preds) != 1:
            return None
        t = body.blocks[preds[0]]["term"]
        if t["k"] != "switch" or fb[0] not in mir.term_succs(t):
            return None
        vals = [v for v, tg in t["targets"] if tg == tb[0]]
        if len(vals) != 1 or t["otherwise"] == tb[0]:
            return None
        dt = strip(self.op_tree(t["discr"], depth + 1))
        if dt[0] != "discr":
            return None
        dp = mir.op_place(t["discr"])
        # the place whose discriminant was read
        src = None
        if dp is not None and not dp["proj"]:
            for (bi, si, d) in self.d.whole.get(dp["l"], []):
                if d[0] == "assign" and d[1]["k"] == "discr":
                    src = d[1]["p"]
        if src is None:
            return None
        from . import conds as _c
        vmap, adt = _c.variants_of(prog, body, src["ty"])
        if not vmap or vals[0] not in vmap:
            return None
        ent = prog.adts.get(body.ty(src["ty"]).get("path") or "")
        if ent is not None:
            var = [v for v in ent[1]["variants"] if v["name"] == vmap[vals[0]]]
            if var and var[0]["fields"]:
                return None          # a variant with payload: `==` would compare the payload too
        return ("call", "core::cmp::PartialEq::eq", "eq", (dt[1], ("agg", adt, vmap[vals[0]], ())))

    def _bool_dnf(self, l, ds):
        """A bool that is only ever assigned constants (rustc fuses `a || matches!(x, V)` into three constant stores)
        is the disjunction, over the blocks that store `true`, of the path conditions of those blocks:
        or(and(lits of block 1), and(lits of block 2), ...). Literals become trees (see _lit_tree)."""
        body = self.body
        prog = getattr(getattr(body, "unit", None), "prog", None)
        if prog is None or not hasattr(body, "blocks") or getattr(self, "_in_dnf", False):
            return None
        if not all(d[0] == "assign" and d[1]["k"] == "use" and isinstance(mir.op_const(d[1]["op"]), bool) for (_, _, d) in ds):
            return None
        from . import conds as _c
        self._in_dnf = True
        try:
            c = _c.conds(prog, body)
            disj = []
            for (bi, si, d) in ds:
                if mir.op_const(d[1]["op"]) is not True:
                    continue
                conj = []
                for lit in c.must_literals(bi):
                    lt = _lit_tree(lit, prog, body)
                    if lt is None:
                        return None
                    conj.append(lt)
                conj.sort(key=repr)
                term = None
                for x in conj:
                    term = x if term is None else ("call", "bool::and", "and", (term, x))
                disj.append(term if term is not None else ("const", True))
            if not disj:
                return ("const", False)
            out = None
            for x in disj:
                out = x if out is None else ("call", "bool::or", "or", (out, x))
            return out
        except RecursionError:
            return None
        finally:
            self._in_dnf = False

    def _short_circuit_meaning(self, ds, depth):
        """`a || b` / `a && b` compile to: switch on a; one arm stores the constant (true / false), the other stores
        b. Give the merged bool the tree or(a, b) / and(a, b)."""
        body = self.body
        if not hasattr(body, "blocks") or len(ds) != 2:
            return None
        const_def = other_def = None
        for (bi, si, d) in ds:
            if d[0] == "assign" and d[1]["k"] == "use" and isinstance(mir.op_const(d[1]["op"]), bool):
                const_def = (bi, mir.op_const(d[1]["op"]))
            else:
                other_def = (bi, d)
        if const_def is None or other_def is None:
            return None
        cb, cv = const_def
        preds = [i for i, b in enumerate(body.blocks) if cb in mir.term_succs(b["term"])]
        if len(preds) != 1:
            return None
        t = body.blocks[preds[0]]["term"]
        if t["k"] != "switch" or body.ty(t["dty"])["s"] != "bool":
            return None
        tg = dict((v, x) for v, x in t["targets"])
        # a || b : a true -> const true ; a && b : a false -> const false
        if cv is True and t["otherwise"] == cb and 0 in tg:
            op = "or"
        elif cv is False and tg.get(0) == cb:
            op = "and"
        else:
            return None
        a = self.op_tree(t["discr"], depth + 1)
        (bi, d) = other_def
        b_ = self.rvalue_tree(d[1], depth + 1) if d[0] == "assign" else self.call_tree(d[1], depth + 1)
        return ("call", "bool::" + op, op, (a, b_))

    def _then_some_meaning(self, ds, trees, depth):
        """`if c { Some(v) } else { None }` gets the tree of `c.then_some(v)` (v must not depend on c being true:
        a plain place/constant expression, as then_some evaluates it eagerly)"""
        body = self.body
        if not hasattr(body, "blocks"):
            return None
        some = [(i, t) for i, t in enumerate(trees) if t[0] == "agg" and t[1] == "Option" and t[2] == "Some" and len(t[3]) == 1]
        none = [(i, t) for i, t in enumerate(trees) if t[0] == "agg" and t[1] == "Option" and t[2] == "None"]
        if len(some) != 1 or len(none) != 1 or len(ds) != 2:
            return None
        # which def is which
        sb = nb = None
        for (bi, si, d) in ds:
            if d[0] == "assign" and d[1]["k"] == "agg":
                if d[1].get("variant") == "Some":
                    sb = bi
                elif d[1].get("variant") == "None":
                    nb = bi
        if sb is None or nb is None:
            return None
        preds = [i for i, b in enumerate(body.blocks) if sb in mir.term_succs(b["term"]) and nb in mir.term_succs(b["term"])]
        if len(preds) != 1:
            return None
        t = body.blocks[preds[0]]["term"]
        if t["k"] != "switch" or body.ty(t["dty"])["s"] != "bool":
            return None
        tg = dict((v, x) for v, x in t["targets"])
        if not (tg.get(0) == nb and t["otherwise"] == sb):
            return None
        v = some[0][1][3][0][1]
        if strip(v)[0] not in ("path", "const", "field"):
            return None
        return ("call", "core::bool::<impl bool>::then_some", "then_some", (self.op_tree(t["discr"], depth + 1), v))

    # ---- operands / rvalues
    def op_tree(self, op, depth=0):
        k = op["k"]
        if k in ("copy", "move"):
            t = self.place_tree(op["p"], depth + 1)
            return self._env_subst(t)
        if k == "const":
            if "fn" in op:
                return ("fnptr", op["fn"]["key"])
            if "v" in op:
                return ("const", op["v"])
            if "def" in op:
                if "promoted" in op:
                    return self.promoted_tree(op["promoted"])
                return self._const_item(op["def"])
            if op.get("zst"):
                return ("const", "zst:" + self.body.ty(op["ty"])["s"])
            return ("const", op.get("s", "?"))
        return ("unknown", "operand")

    def _const_item(self, key):
        """a named constant the rules do not know by name is replaced by its value (an evaluated scalar, or the
        expression tree of its initialiser); see facts.Program.opaque_names"""
        prog = getattr(getattr(self.body, "unit", None), "prog", None)
        name = key.rsplit("::", 1)[-1]
        if prog is None or name in prog.opaque_names() or getattr(self, "_inl_depth", 0) >= 3:
            return ("constdef", key)
        c = prog.consts.get(key)
        if c is not None and "v" in c:
            return ("const", c["v"])
        cb = prog.const_bodies.get(key)
        if cb is None:
            return ("constdef", key)
        sub = Prov(cb)
        sub._inl_depth = getattr(self, "_inl_depth", 0) + 1
        rt = sub.local_tree(0)
        if _has_unknown(rt):
            return ("constdef", key)
        return rt

    def promoted_tree(self, idx):
        for pr in self.body.promoted:
            if pr["idx"] == idx:
                # evaluate the promoted body's return value (_0) as a tree
                class PB:
                    pass
                pb = PB()
                pb.blocks = pr["blocks"]
                pb.locals = pr["locals"]
                pb.argc = 0
                pb.is_closure = False
                pb.promoted = []
                pb.types = self.body.types
                pb.ty = self.body.ty
                sub = Prov.__new__(Prov)
                sub.body = pb
                sub.d = Defs(pb, pr["blocks"]).finish()
                sub.captures = None
                sub._memo = {}
                sub._stack = set()
                sub._frames = []
                t = sub.local_tree(0)
                # _0 = &X  -> X
                return ("promoted", t)
        return ("unknown", "promoted")

    def _env_subst(self, t):
        """Replace closure-environment paths by the parent's trees when known."""
        if self.captures is None:
            return t
        if t[0] == "path" and t[1] == ("env",):
            f = [x for x in t[2] if x != "*"]
            if f and f[0] in self.captures:
                base = self.captures[f[0]]
                rest = list(t[2])
                # drop up to the capture name
                i = rest.index(f[0])
                rest = rest[i + 1:]
                cur = base
                for n in rest:
                    cur = self._project1(cur, n)
                return cur
        if t[0] == "phi":
            return ("phi", tuple(self._env_subst(x) for x in t[1]))
        return t

    def rvalue_tree(self, r, depth=0):
        k = r["k"]
        if k == "use":
            return self.op_tree(r["op"], depth + 1)
        if k == "ref" or k == "rawptr":
            t = self.place_tree(r["p"], depth + 1)
            t = self._env_subst(t)
            return ("ref", t)
        if k == "cast":
            src_ty = ""
            try:
                o_ = r["op"]
                src_ty = self.body.ty(o_["p"]["ty"] if o_["k"] in ("copy", "move") else o_["ty"])["s"]
            except Exception:
                pass
            return ("cast", r["ck"], self.op_tree(r["op"], depth + 1), self.body.ty(r["ty"])["s"], src_ty)
        if k == "bin":
            return ("bin", r["op"], self.op_tree(r["a"], depth + 1), self.op_tree(r["b"], depth + 1))
        if k == "un":
            return ("un", r["op"], self.op_tree(r["a"], depth + 1))
        if k == "discr":
            return ("discr", self._env_subst(self.place_tree(r["p"], depth + 1)))
        if k == "agg":
            ak = r["ak"]
            ops = [self.op_tree(o, depth + 1) for o in r["ops"]]
            if ak == "adt":
                fs = r["fields"]
                if len(fs) != len(ops):
                    fs = [str(i) for i in range(len(ops))]
                return ("agg", r["name"], r["variant"], tuple(zip(fs, ops)))
            if ak == "closure":
                fs = r.get("fields", [])
                if len(fs) != len(ops):
                    fs = [str(i) for i in range(len(ops))]
                return ("agg", "closure:" + r["key"], "", tuple(zip(fs, ops)))
            return ("agg", ak, "", tuple((str(i), o) for i, o in enumerate(ops)))
        if k == "repeat":
            return ("agg", "repeat", str(r["n"]), (("0", self.op_tree(r["op"], depth + 1)),))
        return ("unknown", r.get("s", k))

    def _closure_value(self, clo, params):
        """value tree of calling the in-workspace closure `clo` (an ("agg","closure:KEY",..) tree) with `params`
        (trees for its declared parameters), or None"""
        clo = strip(clo)
        prog = getattr(getattr(self.body, "unit", None), "prog", None)
        if prog is None or clo[0] != "agg" or not str(clo[1]).startswith("closure:") or getattr(self, "_inl_depth", 0) >= 3:
            return None
        key = clo[1][len("closure:"):]
        cb = None
        for b in self.body.unit.bodies.values():
            if b.is_closure and (b.j.get("key") == key or b.key == key):
                cb = b
                break
        if cb is None or cb.argc != len(params) + 1 or len(cb.blocks) > 40:
            return None
        # parameters first (the closure's arg indices), captures afterwards: a captured tree is in the CALLER's terms and
        # may itself mention the caller's arg 2
        sub = Prov(cb)
        sub._inl_depth = getattr(self, "_inl_depth", 0) + 1
        rt = sub.local_tree(0)
        if _has_unknown(rt) or _has_phi(rt):
            return None
        rt = _subst_params(rt, {i + 2: ("marker", i, a) for i, a in enumerate(params)})
        rt = _subst_env(rt, dict(clo[3]))
        return _unmark(rt)

    def _option_combinator(self, c, args):
        """`opt.map(|x| e)` is read as Some(e[x := payload of opt]) - the value it has whenever it is Some - and
        `opt.filter(..)` as opt: the same trees the explicit `if let Some(x) = opt { .. = Some(e) }` spelling gives
        to the stores it guards."""
        if c.get("crate") not in ("core", "std") or "option::" not in c.get("path", "").lower():
            return None
        if c["name"] == "map" and len(args) == 2:
            payload = _project(_project(args[0], "as Some"), "0")
            v = self._closure_value(args[1], [payload])
            if v is not None:
                return ("agg", "Option", "Some", (("0", v),))
        if c["name"] in ("map_or", "is_some_and") and len(args) in (2, 3):
            # opt.map_or(false, |x| p(x))  ==  opt.is_some_and(|x| p(x))  ==  opt.is_some() && p(payload)
            clo = args[-1]
            dflt = strip(args[1]) if c["name"] == "map_or" else ("const", False)
            if dflt == ("const", False):
                payload = _project(_project(args[0], "as Some"), "0")
                v = self._closure_value(clo, [payload])
                if v is not None:
                    some = ("call", "core::option::Option::is_some", "is_some", (args[0],))
                    return ("call", "bool::and", "and", (some, v))
        if c["name"] == "as_ref" and len(args) == 1 and "option::" in c.get("path", "").lower():
            return args[0]
        if c["name"] == "filter" and len(args) == 2:
            payload = _project(_project(args[0], "as Some"), "0")
            pred = self._closure_value(args[1], [("ref", payload)])
            if pred is not None:
                return ("call", "core::option::Option::filter", "filter", (args[0], pred))
            return None
        return None

    def _transparent(self, key, c, args, depth):
        prog = getattr(getattr(self.body, "unit", None), "prog", None)
        if prog is None or depth > 60 or getattr(self, "_inl_depth", 0) >= 3:
            return None
        cal = _transparent_callee(prog, self.body, key, c["name"])
        if cal is None or cal.argc != len(args):
            return None
        sub = Prov(cal)
        sub._inl_depth = getattr(self, "_inl_depth", 0) + 1
        rt = sub.local_tree(0)
        if strip(rt)[0] in ("unknown",) or _has_unknown(rt):
            return None
        # a helper whose value depends on a branch stays a call: an expression tree has no room for the branch
        # conditions; conds.expand_literals reads them from the helper when the call decides a branch in the caller
        if _has_phi(rt):
            return None
        return _subst_params(rt, {i + 1: a for i, a in enumerate(args)})

    def call_tree(self, t, depth=0):
        c = mir.callee_of(t)
        args = tuple(self.op_tree(a, depth + 1) for a in t["args"])
        if c is None:
            return ("call", "<indirect>", "<indirect>", args)
        key = c.get("resolved") or c["key"]
        # a numeric From/Into is the lossless `as` cast: give it the same tree
        if c["name"] in ("from", "into") and len(args) == 1 and c.get("crate") in ("core", "std") and "dest" in t:
            try:
                dt = self.body.ty(t["dest"]["ty"])["s"]
                st = None
                a0 = t["args"][0]
                if a0["k"] in ("copy", "move"):
                    st = self.body.ty(a0["p"]["ty"])["s"]
                elif a0["k"] == "const":
                    st = self.body.ty(a0["ty"])["s"]
                if dt in _NUMERIC and st in _NUMERIC and dt != st:
                    kind = "IntToFloat" if dt in ("f32", "f64") and st not in ("f32", "f64") else (
                        "FloatToFloat" if dt in ("f32", "f64") else "IntToInt")
                    return ("cast", kind, args[0], dt, st)
            except Exception:
                pass
        oc = self._option_combinator(c, args)
        if oc is not None:
            return oc
        if c["name"] in ("call", "call_mut", "call_once") and len(args) == 2 and "ops::function" in c.get("path", ""):
            # calling a local closure: `flag(6, 0)` is the closure's body with its parameters bound
            tup = strip(args[1])
            if tup[0] == "agg" and tup[1] == "tuple":
                v = self._closure_value(args[0], [x for _, x in tup[3]])
                if v is not None:
                    return v
        inl = self._transparent(key, c, args, depth)
        if inl is not None:
            return inl
        if not c.get("resolved") and c.get("trait") and "self_ty" in c:
            st = self.body.ty(c["self_ty"])
            if st["k"] == "adt":
                key = "%s::<%s as %s>::%s" % (st["path"].rsplit("::", 1)[0], st["name"], c["trait"], c["name"])
        if c["name"] == "into" and len(args) == 1 and (c.get("trait") or "").endswith("convert::Into"):
            # `x.into()` is `T::from(x)` (the blanket impl): one spelling
            return ("call", key, "from", args)
        return ("call", key, c["name"], args)


def _lit_tree(lit, prog, body):
    """a path literal as a boolean tree (None when it has no tree form)"""
    if lit[0] == "bool":
        return lit[1] if lit[2] else ("un", "Not", lit[1])
    if lit[0] == "variant":
        names = sorted(lit[2])
        adt = lit[3]
        if len(names) == 1:
            return ("call", "core::cmp::PartialEq::eq", "eq", (lit[1], ("agg", adt, names[0], ())))
        # complement of one variant?
        for (u, a) in prog.adts.values():
            if a["name"] == adt and a["enum"]:
                allv = [v["name"] for v in a["variants"]]
                rest = [v for v in allv if v not in lit[2]]
                if len(rest) == 1:
                    return ("un", "Not", ("call", "core::cmp::PartialEq::eq", "eq", (lit[1], ("agg", adt, rest[0], ()))))
        return None
    if lit[0] == "cmp":
        return ("call", "cmp::" + lit[1], lit[1], (lit[2], lit[3]))
    return None


def forced(t, truth, body, known=None):
    """atoms forced by the boolean tree t having value `truth`: set of (canon text, bool). or/and/not and the
    matches!/== trees are interpreted, with unit propagation (and(a,b) false while a is known true forces b false);
    anything else is an atom."""
    known = set(known or ())
    t = strip(t)
    if t[0] == "un" and t[1] == "Not":
        return forced(t[2], not truth, body, known)
    if t[0] == "call" and t[2] in ("or", "and") and t[1].startswith("bool::") and len(t[3]) == 2:
        x, y = t[3]
        both = (t[2] == "and") == truth          # and-true / or-false force both sides
        if both:
            a = forced(x, truth, body, known)
            b_ = forced(y, truth, body, known | a)
            return a | b_
        # and-false / or-true: one side suffices - unless the other side is already decided the other way
        def decided(z, val):
            fz = forced(z, val, body, known)
            return bool(fz) and fz <= known
        if decided(x, not truth):
            return forced(y, truth, body, known)
        if decided(y, not truth):
            return forced(x, truth, body, known)
        return forced(x, truth, body, known) & forced(y, truth, body, known)
    return {(canon(t, body), truth)}


def _forced_old(t, truth, body):
    """atoms forced by the boolean tree t having value `truth`: set of (canon text, bool). or/and/not and the
    matches!/== trees are interpreted; anything else is an atom."""
    t = strip(t)
    if t[0] == "un" and t[1] == "Not":
        return forced(t[2], not truth, body)
    if t[0] == "call" and t[2] in ("or", "and") and t[1].startswith("bool::") and len(t[3]) == 2:
        a, b_ = forced(t[3][0], truth, body), forced(t[3][1], truth, body)
        both = (t[2] == "and") == truth          # and-true / or-false force both sides
        return (a | b_) if both else (a & b_)
    if t[0] == "call" and t[2] == "not" and len(t[3]) == 1:
        return forced(t[3][0], not truth, body)
    return {(canon(t, body), truth)}


def _has_phi(t, depth=0):
    if depth > 80:
        return True
    k = t[0]
    if k == "phi":
        return True
    if k == "call":
        return any(_has_phi(a, depth + 1) for a in t[3])
    if k == "bin":
        return _has_phi(t[2], depth + 1) or _has_phi(t[3], depth + 1)
    if k in ("un", "cast"):
        return _has_phi(t[2], depth + 1)
    if k == "agg":
        return any(_has_phi(s_, depth + 1) for _, s_ in t[3])
    if k in ("ref", "deref", "discr", "promoted", "field"):
        return _has_phi(t[1], depth + 1)
    return False


_NUMERIC = {"u8", "u16", "u32", "u64", "u128", "usize", "i8", "i16", "i32", "i64", "i128", "isize", "f32", "f64", "bool"}


def _has_unknown(t, depth=0):
    if depth > 80:
        return True
    k = t[0]
    if k == "unknown":
        return True
    if k == "path":
        return t[1][0] == "local"      # a callee-local the tree could not resolve would be meaningless in the caller
    if k == "call":
        return any(_has_unknown(a, depth + 1) for a in t[3])
    if k == "bin":
        return _has_unknown(t[2], depth + 1) or _has_unknown(t[3], depth + 1)
    if k in ("un", "cast"):
        return _has_unknown(t[2], depth + 1)
    if k == "agg":
        return any(_has_unknown(s_, depth + 1) for _, s_ in t[3])
    if k in ("ref", "deref", "discr", "promoted", "field"):
        return _has_unknown(t[1], depth + 1)
    if k == "phi":
        return any(_has_unknown(s_, depth + 1) for s_ in t[1])
    return False


def _transparent_callee(prog, body, key, name):
    """the in-workspace body a call can be replaced by, or None (see facts.Program.opaque_names)"""
    if prog is None or name in prog.opaque_names():
        return None
    cal = prog.bodies.get(key)
    if cal is None or cal.is_closure or cal.unit.crate != body.unit.crate or cal is body:
        return None
    if getattr(cal, "_transp", None) is None:
        ok = len(cal.blocks) <= 60
        for b in cal.blocks:
            if b["cleanup"]:
                continue
            for s_ in b["stmts"]:
                # no stores through references: an expression-like helper
                if s_["k"] == "assign" and any(e[0] == "deref" for e in s_["p"]["proj"]):
                    ok = False
            tm = b["term"]
            if tm["k"] == "call":
                c2 = mir.callee_of(tm)
                if c2 is not None and (c2.get("resolved") or c2["key"]) == cal.key:
                    ok = False          # recursive
                if c2 is not None and c2["name"] in OPASSIGN:
                    ok = False
        # a body with a loop is not an expression
        if ok:
            g = mir.cfg(cal)
            for bi in range(len(cal.blocks)):
                if g.succ[bi] and bi in g.reachable_from(g.succ[bi][0]) and not cal.blocks[bi]["cleanup"]:
                    ok = False
                    break
        cal._transp = ok
    return cal if cal._transp else None


def _subst_params(t, argmap):
    """replace ("path", ("arg", i), proj) by the caller's tree for argument i (projections re-applied)"""
    k = t[0]
    if k == "path":
        r = t[1]
        proj = t[2]
        if any(isinstance(n, str) and n.startswith("[@arg") for n in proj):
            np = []
            for n in proj:
                if isinstance(n, str) and n.startswith("[@arg"):
                    kk = int(n[5:-1])
                    a = argmap.get(kk)
                    if a is not None:
                        a = strip(a[2] if a[0] == "marker" else a)
                        while a[0] == "cast":
                            a = strip(a[2])
                        if a[0] == "const" and isinstance(a[1], int) and not isinstance(a[1], bool):
                            n = "[%d]" % a[1]
                np.append(n)
            proj = tuple(np)
            t = ("path", r, proj)
        if r[0] == "arg" and r[1] in argmap:
            cur = argmap[r[1]]
            for n in proj:
                cur = _project(cur, n)
            return cur
        return t
    if k == "call":
        return ("call", t[1], t[2], tuple(_subst_params(a, argmap) for a in t[3]))
    if k == "bin":
        return ("bin", t[1], _subst_params(t[2], argmap), _subst_params(t[3], argmap))
    if k == "un":
        return ("un", t[1], _subst_params(t[2], argmap))
    if k == "cast":
        return ("cast", t[1], _subst_params(t[2], argmap)) + tuple(t[3:])
    if k == "agg":
        return ("agg", t[1], t[2], tuple((f, _subst_params(s_, argmap)) for f, s_ in t[3]))
    if k in ("ref", "deref", "discr", "promoted"):
        return (k, _subst_params(t[1], argmap))
    if k == "field":
        return _project(_subst_params(t[1], argmap), t[2])
    if k == "phi":
        return ("phi", tuple(_subst_params(s_, argmap) for s_ in t[1]))
    return t


def _map_tree(t, f):
    """rebuild t bottom-up applying f to every node"""
    k = t[0]
    if k == "call":
        t = ("call", t[1], t[2], tuple(_map_tree(a, f) for a in t[3]))
    elif k == "bin":
        t = ("bin", t[1], _map_tree(t[2], f), _map_tree(t[3], f))
    elif k == "un":
        t = ("un", t[1], _map_tree(t[2], f))
    elif k == "cast":
        t = ("cast", t[1], _map_tree(t[2], f)) + tuple(t[3:])
    elif k == "agg":
        t = ("agg", t[1], t[2], tuple((n_, _map_tree(s_, f)) for n_, s_ in t[3]))
    elif k in ("ref", "deref", "discr", "promoted"):
        t = (k, _map_tree(t[1], f))
    elif k == "field":
        t = ("field", _map_tree(t[1], f), t[2])
    elif k == "phi":
        t = ("phi", tuple(_map_tree(s_, f) for s_ in t[1]))
    elif k == "marker":
        t = ("marker", t[1], t[2])
    return f(t)


def _subst_env(t, caps):
    def f(n):
        if n[0] == "path" and n[1] == ("env",):
            fs = [x for x in n[2] if x != "*"]
            if fs and fs[0] in caps:
                rest = list(n[2])
                rest = rest[rest.index(fs[0]) + 1:]
                cur = caps[fs[0]]
                for x in rest:
                    cur = _project(cur, x)
                return cur
        return n
    return _map_tree(t, f)


def _unmark(t):
    def f(n):
        if n[0] == "field" and strip(n[1])[0] == "marker":
            return _project(strip(n[1])[2], n[2])
        return n[2] if n[0] == "marker" else n
    return _map_tree(t, f)


def _project(cur, n):
    """apply one projection step (field name or '*') to a tree"""
    if n == "*":
        if cur[0] == "ref":
            return cur[1]
        if cur[0] == "path":
            return ("path", cur[1], cur[2] + ("*",))
        return ("deref", cur)
    if cur[0] == "ref" :
        return _project(cur[1], n)
    if cur[0] == "path":
        return ("path", cur[1], cur[2] + (n,))
    if cur[0] == "agg":
        for f, sub in cur[3]:
            if f == n:
                return sub
    if cur[0] == "phi":
        return ("phi", tuple(_project(x, n) for x in cur[1]))
    if cur[0] == "marker":
        return ("marker", cur[1], _project(cur[2], n))
    return ("field", cur, n)


def reroot_outer(t, parent):
    """rewrite the roots of a tree evaluated in `parent` so that they stay distinguishable (and named) when the
    tree is substituted into a closure body"""
    k = t[0]
    if k == "path":
        r = t[1]
        if r[0] == "arg":
            return ("path", ("outer", parent.local_name(r[1]) or "arg%d" % r[1]), t[2])
        if r[0] == "local":
            return ("path", ("outer", parent.local_name(r[1]) or "_%d" % r[1]), t[2])
        return t
    if k == "call":
        return ("call", t[1], t[2], tuple(reroot_outer(a, parent) for a in t[3]))
    if k == "bin":
        return ("bin", t[1], reroot_outer(t[2], parent), reroot_outer(t[3], parent))
    if k == "un":
        return ("un", t[1], reroot_outer(t[2], parent))
    if k == "cast":
        return ("cast", t[1], reroot_outer(t[2], parent)) + tuple(t[3:])
    if k == "agg":
        return ("agg", t[1], t[2], tuple((f, reroot_outer(s, parent)) for f, s in t[3]))
    if k in ("ref", "deref", "discr", "promoted"):
        return (k, reroot_outer(t[1], parent))
    if k == "field":
        return ("field", reroot_outer(t[1], parent), t[2])
    if k == "phi":
        return ("phi", tuple(reroot_outer(s, parent) for s in t[1]))
    return t


def strip(t):
    """Look through refs, derefs recorded in paths, transparent casts and single-element phis."""
    while True:
        if t[0] == "ref":
            t = t[1]
        elif t[0] == "deref":
            t = t[1]
        elif t[0] == "promoted":
            t = t[1]
        elif t[0] == "cast" and ("PointerCoercion" in t[1] or t[1] in ("PtrToPtr", "Transmute")):
            t = t[2]
        else:
            return t


def path_fields(t):
    """Field names (without derefs / downcasts) of a path tree, or None."""
    t = strip(t)
    if t[0] != "path":
        return None
    return tuple(x for x in t[2] if x != "*" and not x.startswith("as ") and not x.startswith("["))


def named_fields(t):
    """like path_fields but tuple indices are dropped as well"""
    f = path_fields(t)
    if f is None:
        return None
    return tuple(x for x in f if not x.isdigit())


def path_root(t):
    t = strip(t)
    if t[0] != "path":
        return None
    return t[1]


def leaves(t, out=None):
    """All path / const / call-name leaves a tree depends on."""
    if out is None:
        out = []
    k = t[0]
    if k == "path":
        out.append(t)
    elif k in ("const", "constdef", "fnptr"):
        out.append(t)
    elif k == "call":
        out.append(("callname", t[1], t[2]))
        for a in t[3]:
            leaves(a, out)
    elif k == "bin":
        leaves(t[2], out)
        leaves(t[3], out)
    elif k in ("un",):
        leaves(t[2], out)
    elif k == "cast":
        leaves(t[2], out)
    elif k == "agg":
        for _, s in t[3]:
            leaves(s, out)
    elif k in ("ref", "deref", "discr", "promoted"):
        leaves(t[1], out)
    elif k == "field":
        leaves(t[1], out)
    elif k == "phi":
        for s in t[1]:
            leaves(s, out)
    return out


def depends_on_path(t, pred):
    """Does tree t depend on a path leaf for which pred(root, fields) holds?"""
    for lf in leaves(t):
        if lf[0] == "path":
            f = tuple(x for x in lf[2] if x != "*" and not x.startswith("["))
            if pred(lf[1], f):
                return True
    return False


def tree_str(t, depth=0):
    k = t[0]
    if depth > 12:
        return "…"
    if k == "path":
        r = t[1]
        root = "arg%d" % r[1] if r[0] == "arg" else ("_%d" % r[1] if r[0] == "local" else r[0])
        f = [x for x in t[2] if x != "*"]
        return root + "".join("." + x for x in f)
    if k == "const":
        return repr(t[1])
    if k in ("constdef", "fnptr"):
        return t[1].split("::")[-1]
    if k == "call":
        return "%s(%s)" % (t[2], ", ".join(tree_str(a, depth + 1) for a in t[3]))
    if k == "bin":
        return "%s(%s, %s)" % (t[1], tree_str(t[2], depth + 1), tree_str(t[3], depth + 1))
    if k == "un":
        return "%s(%s)" % (t[1], tree_str(t[2], depth + 1))
    if k == "cast":
        return "(%s as %s)" % (tree_str(t[2], depth + 1), t[3])
    if k == "agg":
        return "%s%s{%s}" % (t[1], ("::" + t[2]) if t[2] else "", ", ".join("%s: %s" % (f, tree_str(s, depth + 1)) for f, s in t[3]))
    if k in ("ref",):
        return "&" + tree_str(t[1], depth + 1)
    if k in ("deref",):
        return "*" + tree_str(t[1], depth + 1)
    if k == "promoted":
        return tree_str(t[1], depth + 1)
    if k == "discr":
        return "discr(%s)" % tree_str(t[1], depth + 1)
    if k == "field":
        return "%s.%s" % (tree_str(t[1], depth + 1), t[2])
    if k == "phi":
        return "phi(%s)" % " | ".join(tree_str(s, depth + 1) for s in t[1])
    return "?%s" % (t[1] if len(t) > 1 else "")


class _Positional:
    """body proxy that hides parameter/local names: canon() then renders roots as argN / _N"""
    def __init__(self, body):
        self._b = body

    def local_name(self, l):
        return None

    def __getattr__(self, k):
        return getattr(self._b, k)


def canon_pos(t, body):
    return canon(t, _Positional(body))


def canon(t, body, depth=0, keep_index=False):
    """Canonical, line-free rendering of a tree for comparison with spec tables: paths are rendered with the
    parameter NAME as root and only named fields (tuple indices, derefs and downcasts dropped); refs, derefs and
    `from`/`into` conversions are kept as calls; phi alternatives are sorted."""
    k = t[0]
    if depth > (30 if keep_index else 14):
        return "…"
    if k == "path":
        r = t[1]
        if r[0] == "arg":
            root = body.local_name(r[1]) or ("arg%d" % r[1])
        elif r[0] == "local":
            root = body.local_name(r[1]) or ("_%d" % r[1])
        elif r[0] == "outer":
            root = r[1]
        else:
            root = r[0]
        f = [x for x in t[2] if x != "*" and not x.startswith("as ") and (keep_index or not x.startswith("[")) and not x.isdigit()]
        out = root
        for x in f:
            out += x if x.startswith("[") else "." + x
        return out
    if k == "const":
        return repr(t[1])
    if k in ("constdef", "fnptr"):
        return t[1].split("::")[-1]
    if keep_index:
        return _canon_ix(t, body, depth)
    if k == "call":
        return "%s(%s)" % (t[2], ", ".join(canon(a, body, depth + 1) for a in t[3]))
    if k == "bin":
        return "%s(%s, %s)" % (t[1].lower(), canon(t[2], body, depth + 1), canon(t[3], body, depth + 1))
    if k == "un":
        return "%s(%s)" % (t[1].lower(), canon(t[2], body, depth + 1))
    if k == "cast":
        return "cast<%s>(%s)" % (t[3].split("::")[-1], canon(t[2], body, depth + 1))
    if k == "agg":
        name = t[1] if not t[1].startswith("closure:") else "closure"
        if name in ("Option", "Result") or (len(t[3]) == 1 and t[3][0][0] == "0"):
            inner = ", ".join(canon(s, body, depth + 1) for _, s in t[3])
            return "%s(%s)" % (t[2] or name, inner)
        return "%s%s{%s}" % (name, ("::" + t[2]) if t[2] and t[2] != name else "",
                             ", ".join("%s: %s" % (f, canon(s, body, depth + 1)) for f, s in t[3]))
    if k in ("ref", "deref", "promoted"):
        return canon(t[1], body, depth + 1)
    if k == "discr":
        return "discr(%s)" % canon(t[1], body, depth + 1)
    if k == "field":
        if t[2].isdigit() or t[2].startswith("as "):
            return canon(t[1], body, depth + 1)
        return "%s.%s" % (canon(t[1], body, depth + 1), t[2])
    if k == "phi":
        return "phi(%s)" % " | ".join(sorted(set(canon(s, body, depth + 1) for s in t[1])))
    return "?"


def _canon_ix(t, body, depth):
    """canon() with constant indices kept (codec layouts)"""
    k = t[0]
    c = lambda x: canon(x, body, depth + 1, True)
    if k == "call":
        return "%s(%s)" % (t[2], ", ".join(c(a) for a in t[3]))
    if k == "bin":
        return "%s(%s, %s)" % (t[1].lower(), c(t[2]), c(t[3]))
    if k == "un":
        return "%s(%s)" % (t[1].lower(), c(t[2]))
    if k == "cast":
        return "cast<%s>(%s)" % (t[3].split("::")[-1], c(t[2]))
    if k == "agg":
        name = t[1] if not t[1].startswith("closure:") else "closure"
        if name in ("Option", "Result") or (len(t[3]) == 1 and t[3][0][0] == "0"):
            return "%s(%s)" % (t[2] or name, ", ".join(c(s) for _, s in t[3]))
        return "%s%s{%s}" % (name, ("::" + t[2]) if t[2] and t[2] != name else "", ", ".join("%s: %s" % (f, c(s)) for f, s in t[3]))
    if k in ("ref", "deref", "promoted"):
        return c(t[1])
    if k == "discr":
        return "discr(%s)" % c(t[1])
    if k == "field":
        if t[2].isdigit() or t[2].startswith("as "):
            return c(t[1])
        return "%s.%s" % (c(t[1]), t[2])
    if k == "phi":
        return "phi(%s)" % " | ".join(sorted(set(c(s) for s in t[1])))
    return "?"


# ---------------------------------------------------------------- linear forms
from fractions import Fraction as _Fr

_CONV = ("from", "into", "clone", "to_owned", "borrow", "deref", "from_fixed_nanos", "unwrap", "expect")


def lin(t, body, depth=0):
    """Linear form of an arithmetic tree: dict canonical-leaf -> Fraction coefficient. add/sub/neg and
    multiplication/division by numeric constants are interpreted; unit-preserving conversions (`from`, `into`,
    clone, Some(x)) are looked through; anything else is a leaf. Statement order, temporaries and
    re-association are invisible."""
    out = {}

    def add(term, coef):
        if coef == 0:
            return
        out[term] = out.get(term, _Fr(0)) + coef
        if out[term] == 0:
            del out[term]

    def rec(t, coef, depth):
        k = t[0]
        if depth > 30:
            add("…", coef)
            return
        if k in ("ref", "deref", "promoted"):
            return rec(t[1], coef, depth + 1)
        if k == "call":
            name, args = t[2], t[3]
            if name in ("add", "add_assign", "saturating_add", "wrapping_add") and len(args) == 2:
                rec(args[0], coef, depth + 1)
                rec(args[1], coef, depth + 1)
                return
            if name in ("sub", "sub_assign", "saturating_sub", "wrapping_sub") and len(args) == 2:
                rec(args[0], coef, depth + 1)
                rec(args[1], -coef, depth + 1)
                return
            if name == "neg" and len(args) == 1:
                return rec(args[0], -coef, depth + 1)
            if name in ("div", "mul") and len(args) == 2:
                c = _num(args[1])
                if c is not None and c != 0:
                    return rec(args[0], coef / c if name == "div" else coef * c, depth + 1)
                c = _num(args[0])
                if name == "mul" and c is not None:
                    return rec(args[1], coef * c, depth + 1)
            if name in _CONV and len(args) == 1:
                return rec(args[0], coef, depth + 1)
            if name == "filter" and len(args) == 2 and t[1] == "core::option::Option::filter":
                return rec(args[0], coef, depth + 1)       # the value it has when it is kept
        if k == "bin":
            op = t[1]
            if op in ("Add", "AddWithOverflow", "AddUnchecked"):
                rec(t[2], coef, depth + 1)
                rec(t[3], coef, depth + 1)
                return
            if op in ("Sub", "SubWithOverflow", "SubUnchecked"):
                rec(t[2], coef, depth + 1)
                rec(t[3], -coef, depth + 1)
                return
        if k == "un" and t[1] == "Neg":
            return rec(t[2], -coef, depth + 1)
        if k == "agg" and t[1] in ("Option",) and t[2] == "Some" and len(t[3]) == 1:
            return rec(t[3][0][1], coef, depth + 1)
        if k == "field" and (t[2].isdigit() or t[2].startswith("as ")):
            return rec(t[1], coef, depth + 1)
        if k == "const" and isinstance(t[1], (int, float)) and not isinstance(t[1], bool):
            add("1", coef * _Fr(t[1]).limit_denominator(10 ** 12))
            return
        add(canon(t, body), coef)

    rec(t, _Fr(1), depth)
    return out


def _num(t):
    t = strip(t)
    if t[0] == "const" and isinstance(t[1], (int, float)) and not isinstance(t[1], bool):
        return _Fr(t[1]).limit_denominator(10 ** 12)
    if t[0] == "cast":
        return _num(t[2])
    # constant folding of `CONST + 1`-style expressions (named constants are already their values)
    if t[0] == "field" and t[2] == "0" and strip(t[1])[0] == "bin" and strip(t[1])[1].endswith("WithOverflow"):
        t = strip(t[1])
    if t[0] == "bin" and t[1] in ("Add", "Sub", "Mul", "AddWithOverflow", "SubWithOverflow", "MulWithOverflow"):
        a, b = _num(t[2]), _num(t[3])
        if a is not None and b is not None:
            return a + b if t[1].startswith("Add") else (a - b if t[1].startswith("Sub") else a * b)
    return None


def lin_str(d):
    items = sorted(d.items())
    return " ".join("%s%s*%s" % ("+" if c > 0 else "-", abs(c), k) if abs(c) != 1 else "%s%s" % ("+" if c > 0 else "-", k)
                    for k, c in items) or "0"


def parse_lin(s):
    """'+a -b +1/2*c' -> dict"""
    out = {}
    for tok in s.split():
        sign = -1 if tok[0] == "-" else 1
        body = tok[1:] if tok[0] in "+-" else tok
        if "*" in body:
            c, name = body.split("*", 1)
            c = _Fr(c)
        else:
            c, name = _Fr(1), body
        out[name] = out.get(name, _Fr(0)) + sign * c
    return out
