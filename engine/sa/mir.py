"""MIR helpers: places, operands, rendering, CFG, dominators, control dependence."""
import collections


# ---------------------------------------------------------------- places / operands

def place_key(p):
    """Hashable form of a place: (local, ((kind, detail...), ...))."""
    proj = []
    for e in p["proj"]:
        k = e[0]
        if k == "deref":
            proj.append(("deref",))
        elif k == "field":
            proj.append(("field", e[2]))
        elif k == "downcast":
            proj.append(("downcast", e[1]))
        elif k == "index":
            proj.append(("index", e[1]))
        elif k == "cidx":
            proj.append(("cidx", e[1], e[3]))
        elif k == "subslice":
            proj.append(("subslice", e[1], e[2], e[3]))
        else:
            proj.append(("other",))
    return (p["l"], tuple(proj))


def place_str(p, body=None):
    if isinstance(p, dict):
        p = place_key(p)
    l, proj = p
    name = None
    if body is not None:
        name = body.local_name(l)
    s = "_%d" % l + ("{%s}" % name if name else "")
    for e in proj:
        if e[0] == "deref":
            s = "(*%s)" % s
        elif e[0] == "field":
            s = "%s.%s" % (s, e[1])
        elif e[0] == "downcast":
            s = "(%s as %s)" % (s, e[1])
        elif e[0] == "index":
            s = "%s[_%d]" % (s, e[1])
        elif e[0] == "cidx":
            s = "%s[%s%d]" % (s, "-" if e[2] else "", e[1])
        elif e[0] == "subslice":
            s = "%s[%d..%s%d]" % (s, e[1], "-" if e[3] else "", e[2])
        else:
            s = s + ".?"
    return s


def field_path(p):
    """Names of field/downcast projections in order (derefs skipped)."""
    if isinstance(p, dict):
        p = place_key(p)
    return tuple(e[1] for e in p[1] if e[0] in ("field",))


def op_place(op):
    if op["k"] in ("copy", "move"):
        return op["p"]
    return None


def op_const(op):
    """Return python value of a scalar constant operand, else None."""
    if op["k"] == "const" and "v" in op:
        return op["v"]
    return None


def op_str(op, body=None):
    k = op["k"]
    if k in ("copy", "move"):
        return "%s %s" % (k, place_str(op["p"], body))
    if k == "const":
        if "fn" in op:
            return "fn(%s)" % op["fn"]["key"]
        if "v" in op:
            return "const %r" % (op["v"],)
        if "def" in op:
            return "const {%s%s}" % (op["def"], ("#p%d" % op["promoted"]) if "promoted" in op else "")
        return "const(%s)" % op.get("s", "?")
    return "?(%s)" % op.get("s", "")


def rvalue_str(r, body=None):
    k = r["k"]
    if k == "use":
        return op_str(r["op"], body)
    if k == "ref":
        return "&%s%s" % ("mut " if r["mut"] else ("fake " if r["bk"] == "fake" else ""), place_str(r["p"], body))
    if k == "rawptr":
        return "&raw %s" % place_str(r["p"], body)
    if k == "cast":
        ty = body.ty(r["ty"])["s"] if body else r["ty"]
        return "%s as %s (%s)" % (op_str(r["op"], body), ty, r["ck"])
    if k == "bin":
        return "%s(%s, %s)" % (r["op"], op_str(r["a"], body), op_str(r["b"], body))
    if k == "un":
        return "%s(%s)" % (r["op"], op_str(r["a"], body))
    if k == "discr":
        return "discriminant(%s)" % place_str(r["p"], body)
    if k == "agg":
        ak = r["ak"]
        ops = ", ".join(op_str(o, body) for o in r["ops"])
        if ak == "adt":
            fs = r["fields"]
            if len(fs) == len(r["ops"]):
                ops = ", ".join("%s: %s" % (f, op_str(o, body)) for f, o in zip(fs, r["ops"]))
            return "%s::%s{%s}" % (r["name"], r["variant"], ops)
        if ak == "closure":
            return "closure<%s>{%s}" % (r["key"], ops)
        return "%s(%s)" % (ak, ops)
    if k == "repeat":
        return "[%s; %s]" % (op_str(r["op"], body), r["n"])
    return "?%s" % r.get("s", k)


def term_str(t, body=None):
    k = t["k"]
    if k == "goto":
        return "goto bb%d" % t["target"]
    if k == "switch":
        return "switchInt(%s) -> [%s, otherwise: bb%d]" % (
            op_str(t["discr"], body), ", ".join("%d: bb%d" % (v, b) for v, b in t["targets"]), t["otherwise"])
    if k == "call":
        f = t["func"]
        fn = f["fn"]["key"] if (f["k"] == "const" and "fn" in f) else op_str(f, body)
        tgt = ("bb%d" % t["target"]) if t["target"] is not None else "!"
        return "%s = %s(%s) -> %s" % (place_str(t["dest"], body), fn,
                                      ", ".join(op_str(a, body) for a in t["args"]), tgt)
    if k == "assert":
        m = t["msg"]
        return "assert(%s%s, %s) -> bb%d" % ("" if t["expected"] else "!", op_str(t["cond"], body), m["kind"], t["target"])
    if k == "drop":
        return "drop(%s) -> bb%d" % (place_str(t["p"], body), t["target"])
    return k


def dump_body(body, out=None):
    import sys
    out = out or sys.stdout
    out.write("fn %s  [%s:%d]\n" % (body.key, body.file, body.line))
    for i, l in enumerate(body.locals):
        out.write("  let _%d%s: %s\n" % (i, ("{%s}" % l["name"]) if l.get("name") else "", body.ty(l["ty"])["s"]))
    for bi, b in enumerate(body.blocks):
        out.write(" bb%d%s:\n" % (bi, " (cleanup)" if b["cleanup"] else ""))
        for s in b["stmts"]:
            if s["k"] == "assign":
                out.write("    %s = %s   // L%d %s\n" % (place_str(s["p"], body), rvalue_str(s["r"], body),
                                                         s["sp"][1], ",".join(s["sp"][4])))
            else:
                out.write("    %s\n" % s["k"])
        t = b["term"]
        out.write("    %s   // L%d %s\n" % (term_str(t, body), t["sp"][1], ",".join(t["sp"][4])))


# ---------------------------------------------------------------- CFG

def term_succs(t, with_unwind=False):
    k = t["k"]
    out = []
    if k == "goto":
        out = [t["target"]]
    elif k == "switch":
        out = [b for _, b in t["targets"]] + [t["otherwise"]]
    elif k in ("call", "drop", "assert", "yield"):
        if t.get("target") is not None:
            out = [t["target"]]
        if k == "yield" and t.get("drop") is not None and with_unwind:
            out.append(t["drop"])
    elif k in ("return", "unreachable", "resume", "terminate", "coroutine_drop", "tailcall", "asm"):
        out = []
    if with_unwind and t.get("unwind") is not None:
        out.append(t["unwind"])
    return out


class CFG:
    """CFG of one body without unwind edges. Node ids are block indices; EXIT is a virtual node."""

    def __init__(self, body, blocks=None):
        self.body = body
        self.blocks = blocks if blocks is not None else body.blocks
        n = len(self.blocks)
        self.n = n
        self.EXIT = n
        self.succ = [[] for _ in range(n + 1)]
        self.pred = [[] for _ in range(n + 1)]
        for i, b in enumerate(self.blocks):
            ss = term_succs(b["term"])
            seen = []
            for s in ss:
                if s not in seen:
                    seen.append(s)
            k = b["term"]["k"]
            if k == "return":
                seen = [self.EXIT]
            self.succ[i] = seen
            for s in seen:
                self.pred[s].append(i)
        # reachable set from entry
        self.reach = set()
        st = [0]
        while st:
            x = st.pop()
            if x in self.reach:
                continue
            self.reach.add(x)
            st.extend(self.succ[x])
        self._dom = None
        self._pdom = None
        self._cd = None

    # -- generic iterative dominator computation over (succ, pred, root)
    @staticmethod
    def _idom(n_nodes, root, succ, pred):
        order = []
        seen = set()
        st = [(root, iter(succ[root]))]
        seen.add(root)
        while st:
            x, it = st[-1]
            adv = False
            for y in it:
                if y not in seen:
                    seen.add(y)
                    st.append((y, iter(succ[y])))
                    adv = True
                    break
            if not adv:
                order.append(x)
                st.pop()
        rpo = list(reversed(order))
        idx = {x: i for i, x in enumerate(rpo)}
        idom = {root: root}
        changed = True
        while changed:
            changed = False
            for x in rpo[1:]:
                new = None
                for p in pred[x]:
                    if p in idom:
                        if new is None:
                            new = p
                        else:
                            a, b = p, new
                            while a != b:
                                while idx[a] > idx[b]:
                                    a = idom[a]
                                while idx[b] > idx[a]:
                                    b = idom[b]
                            new = a
                if new is not None and idom.get(x) != new:
                    idom[x] = new
                    changed = True
        return idom

    def dom(self):
        if self._dom is None:
            self._dom = self._idom(self.n + 1, 0, self.succ, self.pred)
        return self._dom

    def pdom(self):
        """Immediate post-dominators (root = EXIT). Blocks that cannot reach EXIT (diverging) are
        connected to EXIT virtually so that every node has a post-dominator."""
        if self._pdom is None:
            succ = [list(s) for s in self.succ]
            pred = [list(p) for p in self.pred]
            # nodes that cannot reach EXIT: add virtual edge from dead-end nodes
            for i in range(self.n):
                if not succ[i]:
                    succ[i].append(self.EXIT)
                    pred[self.EXIT].append(i)
            # infinite loops: find nodes not reaching EXIT and link one of them
            reach_exit = set()
            st = [self.EXIT]
            while st:
                x = st.pop()
                if x in reach_exit:
                    continue
                reach_exit.add(x)
                st.extend(pred[x])
            for i in sorted(self.reach):
                if i not in reach_exit:
                    succ[i].append(self.EXIT)
                    pred[self.EXIT].append(i)
                    st = [i]
                    while st:
                        x = st.pop()
                        if x in reach_exit:
                            continue
                        reach_exit.add(x)
                        st.extend(pred[x])
            self._pdom = self._idom(self.n + 1, self.EXIT, pred, succ)
        return self._pdom

    def pdom_returning(self):
        """Immediate post-dominators over RETURNING executions only: blocks that cannot reach a `return`
        (panics, aborts, infinite loops) are ignored."""
        if getattr(self, "_pdomr", None) is None:
            can = set()
            st = [self.EXIT]
            while st:
                x = st.pop()
                if x in can:
                    continue
                can.add(x)
                st.extend(self.pred[x])
            succ = [[y for y in self.succ[i] if y in can] if i in can else [] for i in range(self.n + 1)]
            pred = [[y for y in self.pred[i] if y in can] if i in can else [] for i in range(self.n + 1)]
            self._pdomr = self._idom(self.n + 1, self.EXIT, pred, succ)
        return self._pdomr

    def postdominates_returning(self, a, b):
        ip = self.pdom_returning()
        if b not in ip:
            return False
        x = b
        while True:
            if x == a:
                return True
            if ip[x] == x:
                return False
            x = ip[x]

    def dominates(self, a, b):
        """block a dominates block b"""
        idom = self.dom()
        if b not in idom:
            return False
        x = b
        while True:
            if x == a:
                return True
            if idom[x] == x:
                return False
            x = idom[x]

    def postdominates(self, a, b):
        ip = self.pdom()
        if b not in ip:
            return False
        x = b
        while True:
            if x == a:
                return True
            if ip[x] == x:
                return False
            x = ip[x]

    def control_deps(self):
        """Ferrante et al.: map block -> set of (branch_block, succ) edges it is directly
        control-dependent on."""
        if self._cd is None:
            ip = self.pdom()
            cd = collections.defaultdict(set)
            for a in range(self.n):
                if a not in self.reach:
                    continue
                if len(self.succ[a]) < 2:
                    continue
                for s in self.succ[a]:
                    # walk from s up the post-dominator tree until ipdom(a)
                    stop = ip.get(a)
                    x = s
                    guard = 0
                    while x != stop and x is not None and guard < 100000:
                        cd[x].add((a, s))
                        if ip.get(x) == x:
                            break
                        x = ip.get(x)
                        guard += 1
            self._cd = cd
        return self._cd

    def transitive_control_deps(self, block):
        """All branch edges (a, s) that `block` is transitively control-dependent on."""
        cd = self.control_deps()
        out = set()
        work = [block]
        seen = set()
        while work:
            x = work.pop()
            if x in seen:
                continue
            seen.add(x)
            for (a, s) in cd.get(x, ()):
                if (a, s) not in out:
                    out.add((a, s))
                    work.append(a)
        return out

    def reachable_from(self, start, avoid=frozenset()):
        seen = set()
        st = [start]
        while st:
            x = st.pop()
            if x in seen or x in avoid:
                continue
            seen.add(x)
            st.extend(self.succ[x])
        return seen


def cfg(body):
    if body._cfg is None:
        body._cfg = CFG(body)
    return body._cfg


# ---------------------------------------------------------------- iteration helpers

def iter_stmts(body):
    """Yield (bb, idx, stmt) for every assign statement."""
    for bi, b in enumerate(body.blocks):
        for si, s in enumerate(b["stmts"]):
            yield bi, si, s


def iter_terms(body, kind=None):
    for bi, b in enumerate(body.blocks):
        t = b["term"]
        if kind is None or t["k"] == kind:
            yield bi, t


def callee_of(t):
    """callee descriptor dict of a call terminator or None for indirect calls"""
    f = t["func"]
    if f["k"] == "const" and "fn" in f:
        return f["fn"]
    return None


def iter_calls(body, name=None, path_contains=None):
    for bi, t in iter_terms(body, "call"):
        c = callee_of(t)
        if c is None:
            continue
        if name is not None and c["name"] != name:
            continue
        if path_contains is not None and path_contains not in c["path"] and path_contains not in c["key"]:
            continue
        yield bi, t, c
