"""A-INT value ranges for integer operands, computed directly on MIR (types give the leaf ranges), and A-LEN facts
for slices (lengths implied by dominating guards and by constant ranges)."""
from . import mir, dataflow as df

INT_RANGE = {
    "u8": (0, 2 ** 8 - 1), "u16": (0, 2 ** 16 - 1), "u32": (0, 2 ** 32 - 1), "u64": (0, 2 ** 64 - 1),
    "u128": (0, 2 ** 128 - 1), "usize": (0, 2 ** 64 - 1),
    "i8": (-2 ** 7, 2 ** 7 - 1), "i16": (-2 ** 15, 2 ** 15 - 1), "i32": (-2 ** 31, 2 ** 31 - 1),
    "i64": (-2 ** 63, 2 ** 63 - 1), "i128": (-2 ** 127, 2 ** 127 - 1), "isize": (-2 ** 63, 2 ** 63 - 1),
    "bool": (0, 1),
}
LEN_MAX = 2 ** 63 - 1   # a slice cannot be longer than isize::MAX


def ty_range(s):
    return INT_RANGE.get(s)


class Ranges:
    def __init__(self, prog, body, const_returns=None):
        self.prog = prog
        self.body = body
        self.d = df.defs(body)
        self.const_returns = const_returns or {}
        self._memo = {}
        self._busy = set()

    def op_range(self, op, depth=0):
        k = op["k"]
        if k == "const":
            v = op.get("v")
            if isinstance(v, bool):
                return (int(v), int(v))
            if isinstance(v, int):
                return (v, v)
            if op.get("def"):
                # a named constant (`Header::WIRE_SIZE`, `PtpVersion::WIRE_OFFSET`): its evaluated value
                cst = self.prog.consts.get(op["def"]) if self.prog is not None else None
                cv = cst.get("v") if cst else None
                if isinstance(cv, int) and not isinstance(cv, bool):
                    return (cv, cv)
            return ty_range(self.body.ty(op["ty"])["s"])
        if k in ("copy", "move"):
            return self.place_range(op["p"], depth)
        return None

    def place_range(self, p, depth=0):
        tyr = ty_range(self.body.ty(p["ty"])["s"])
        if depth > 25:
            return tyr
        if p["proj"]:
            # (_t.0) of a checked arithmetic tuple
            if len(p["proj"]) == 1 and p["proj"][0][0] == "field" and p["proj"][0][1] == 0:
                l = p["l"]
                ds = self.d.whole.get(l, [])
                if len(ds) == 1 and ds[0][2][0] == "assign" and ds[0][2][1]["k"] == "bin" and \
                        ds[0][2][1]["op"].endswith("WithOverflow"):
                    r = self.rvalue_range(ds[0][2][1], depth + 1, exact=True)
                    return self._meet(r, tyr)
            # field of a local that is built once as an aggregate (argument tuple of a closure call, struct literal)
            if len(p["proj"]) == 1 and p["proj"][0][0] == "field" and p["l"] not in self.d.partial \
                    and p["l"] not in self.d.mut_borrowed:
                ds = self.d.whole.get(p["l"], [])
                if len(ds) == 1 and ds[0][2][0] == "assign" and ds[0][2][1]["k"] == "agg" and \
                        ds[0][2][1].get("ak") in ("tuple", "adt") and not ds[0][2][1].get("vidx"):
                    ops = ds[0][2][1]["ops"]
                    i = p["proj"][0][1]
                    if isinstance(i, int) and i < len(ops):
                        return self._meet(self.op_range(ops[i], depth + 1), tyr)
            return tyr
        l = p["l"]
        if l in self._memo:
            return self._memo[l]
        if l in self._busy:
            return tyr
        self._busy.add(l)
        try:
            ds = self.d.whole.get(l, [])
            if not ds or l in self.d.partial or l in self.d.mut_borrowed or (1 <= l <= self.body.argc):
                r = tyr
            else:
                r = None
                for (bi, si, dd) in ds:
                    if dd[0] == "assign":
                        x = self.rvalue_range(dd[1], depth + 1)
                    else:
                        x = self.call_range(dd[1], depth + 1)
                    x = self._meet(x, tyr)
                    r = x if r is None else self._join(r, x)
                if l in self.d.opassign:
                    r = tyr
        finally:
            self._busy.discard(l)
        self._memo[l] = r
        return r

    @staticmethod
    def _meet(a, b):
        if a is None:
            return b
        if b is None:
            return a
        lo, hi = max(a[0], b[0]), min(a[1], b[1])
        if lo > hi:
            return b
        return (lo, hi)

    @staticmethod
    def _join(a, b):
        if a is None or b is None:
            return None
        return (min(a[0], b[0]), max(a[1], b[1]))

    def call_range(self, t, depth):
        c = mir.callee_of(t)
        if c is None:
            return None
        name = c["name"]
        if name in ("len",):
            return (0, LEN_MAX)
        if name in ("from", "into") and len(t["args"]) == 1 and c.get("crate") in ("core", "std"):
            # numeric From/Into = lossless widening cast
            src = self.op_range(t["args"][0], depth + 1)
            dst = ty_range(self.body.ty(t["dest"]["ty"])["s"])
            if src is not None and dst is not None and src[0] >= dst[0] and src[1] <= dst[1]:
                return src
            return dst
        key = c.get("resolved") or c["key"]
        if key in self.const_returns:
            v = self.const_returns[key]
            return (v, v)
        if name in ("min", "max", "clamp") and len(t["args"]) >= 2:
            rs = [self.op_range(a, depth + 1) for a in t["args"]]
            if all(r is not None for r in rs):
                if name == "min":
                    return (min(r[0] for r in rs), min(r[1] for r in rs))
                if name == "max":
                    return (max(r[0] for r in rs), max(r[1] for r in rs))
        return None

    def rvalue_range(self, r, depth, exact=False):
        k = r["k"]
        if k == "use":
            return self.op_range(r["op"], depth)
        if k == "cast":
            src = self.op_range(r["op"], depth)
            dst = ty_range(self.body.ty(r["ty"])["s"])
            if r["ck"] == "IntToInt" and src is not None and dst is not None:
                if src[0] >= dst[0] and src[1] <= dst[1]:
                    return src
                return dst
            return dst
        if k == "un":
            if r["op"] == "PtrMetadata":
                return (0, LEN_MAX)
            return None
        if k == "bin":
            a = self.op_range(r["a"], depth)
            b = self.op_range(r["b"], depth)
            op = r["op"].replace("WithOverflow", "").replace("Unchecked", "")
            if a is None or b is None:
                return None
            if op == "Add":
                return (a[0] + b[0], a[1] + b[1])
            if op == "Sub":
                return (a[0] - b[1], a[1] - b[0])
            if op == "Mul":
                c = [a[0] * b[0], a[0] * b[1], a[1] * b[0], a[1] * b[1]]
                return (min(c), max(c))
            if op == "Div" and b[0] > 0:
                return (a[0] // b[1] if a[0] >= 0 else a[0], a[1] // b[0] if a[1] >= 0 else 0)
            if op == "Rem" and b[0] > 0 and a[0] >= 0:
                return (0, min(a[1], b[1] - 1))
            if op == "BitAnd" and a[0] >= 0 and b[0] >= 0:
                return (0, min(a[1], b[1]))
            if op == "Shr" and a[0] >= 0 and b[0] >= 0:
                return (a[0] >> min(b[1], 200), a[1] >> min(b[0], 200))
            if op == "Shl" and a[0] >= 0 and b[0] >= 0 and b[1] < 200:
                return (a[0] << b[0], a[1] << b[1])
            if op in ("Eq", "Ne", "Lt", "Le", "Gt", "Ge"):
                return (0, 1)
            return None
        if k == "discr":
            return (0, 255)
        return None
