"""Typed-HIR helpers (E4): desugaring removal (.await, ?), traversal, local-variable taint."""

CHILD_KEYS = ("args", "es", "stmts", "arms", "fields", "pats", "params")
CHILD_SINGLE = ("recv", "fn", "l", "r", "e", "init", "cond", "then", "else", "body", "scrut", "expr", "i",
                "els", "guard", "base", "pat")


def simplify(n):
    """Return a copy of the tree where `match <AwaitDesugar>` becomes {"k":"await","e":X} and
    `match <TryDesugar>` becomes {"k":"try","e":X} (X simplified)."""
    if isinstance(n, list):
        return [simplify(x) for x in n]
    if not isinstance(n, dict):
        return n
    k = n.get("k")
    if k == "match":
        src = n.get("src", "")
        if src.startswith("AwaitDesugar"):
            sc = n["scrut"]
            if sc.get("k") == "call" and sc.get("callee", {}).get("def", "").endswith("IntoFuture::into_future"):
                return {"k": "await", "e": simplify(sc["args"][0]), "ty": n.get("ty"), "sp": n.get("sp"),
                        "eid": n.get("eid")}
        if src.startswith("TryDesugar"):
            sc = n["scrut"]
            if sc.get("k") == "call" and sc.get("callee", {}).get("def", "").endswith("Try::branch"):
                return {"k": "try", "e": simplify(sc["args"][0]), "ty": n.get("ty"), "sp": n.get("sp"),
                        "eid": n.get("eid")}
    out = {}
    for kk, v in n.items():
        if isinstance(v, (dict, list)):
            out[kk] = simplify(v)
        else:
            out[kk] = v
    return out


def children(n):
    """Direct child nodes (expressions, statements, arms, patterns)."""
    if isinstance(n, list):
        for x in n:
            yield x
        return
    if not isinstance(n, dict):
        return
    for kk in CHILD_SINGLE:
        v = n.get(kk)
        if isinstance(v, dict):
            yield v
    for kk in CHILD_KEYS:
        v = n.get(kk)
        if isinstance(v, list):
            for x in v:
                if isinstance(x, dict):
                    yield x


def walk(n, enter_closures=True):
    """Pre-order traversal yielding every dict node."""
    stack = [n]
    while stack:
        x = stack.pop()
        if isinstance(x, dict):
            yield x
            if x.get("k") == "closure" and not enter_closures:
                continue
            ch = list(children(x))
            stack.extend(reversed(ch))


def is_fn_body_closure(n):
    """The closure that is the desugared body of an async fn."""
    return n.get("k") == "closure" and "Desugared(Async, Fn)" in n.get("ckind", "")


def fn_body(h):
    """Body expression of a HIR fn record, looking through the async-fn coroutine closure."""
    b = h["body"]
    if is_fn_body_closure(b):
        return b["body"]
    return b


def line(n):
    sp = n.get("sp")
    return sp[1] if sp else None


def where(n):
    sp = n.get("sp")
    return "%s:%d" % (sp[0], sp[1]) if sp else None


def locals_used(n, enter_closures=True):
    """set of local ids referenced under n"""
    out = set()
    for x in walk(n, enter_closures):
        if x.get("k") == "path":
            r = x.get("res", {})
            if "local" in r:
                out.add(r["id"])
    return out


def pat_bindings(p):
    out = []
    for x in walk(p):
        if x.get("k") == "bind":
            out.append((x["name"], x["id"]))
    return out


def callee_name(n):
    """Resolved callee key of a call / method call node, or ''."""
    if n.get("k") == "mcall":
        return n.get("callee", "") or ""
    if n.get("k") == "call":
        c = n.get("callee")
        if isinstance(c, dict):
            return c.get("def", "") or ""
    return ""


def lit_int(n):
    if n.get("k") == "lit":
        v = n.get("v") or {}
        if "int" in v:
            return v["int"]
    return None


def strip_wrappers(n):
    """Look through blocks without statements, casts, addrof, derefs."""
    while isinstance(n, dict):
        k = n.get("k")
        if k == "block" and not n.get("stmts") and n.get("expr"):
            n = n["expr"]
        elif k in ("cast", "addrof") or (k == "unary" and n.get("op") == "*"):
            n = n["e"]
        else:
            break
    return n
