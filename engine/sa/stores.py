"""Store tables: every assignment into memory reachable from `self`/arguments or into named local structs,
flattened per field, with canonical names and expression trees."""
from . import mir
from . import dataflow as df


def place_name(body, pv, p):
    has_deref = any(e[0] == "deref" for e in p["proj"])
    nm = body.local_name(p["l"])
    if not has_deref and nm and not (1 <= p["l"] <= body.argc and body.local_ty(p["l"])["k"] == "ref"):
        f = [e[2] for e in p["proj"] if e[0] == "field" and not e[2].isdigit()]
        return ".".join([nm] + f)
    return df.canon(pv.place_tree(p), body)


def flatten(lhs, tree, depth=0):
    """Yield (lhs_path, tree) for an aggregate store, one entry per leaf field (Option/Result kept whole)."""
    t = tree
    if t[0] == "agg" and depth < 3 and t[1] not in ("Option", "Result", "tuple", "array", "repeat") \
            and not t[1].startswith("closure") and t[3]:
        if t[2] and t[2] != t[1]:
            # an enum variant: which variant is stored is itself a fact; a plain struct literal is exactly the
            # stores of its fields (`*ds = DS { a, b }` and `ds.a = a; ds.b = b` give the same table)
            yield (lhs, ("const", "%s::%s" % (t[1], t[2])))
        for f, sub in t[3]:
            name = lhs if f.isdigit() else "%s.%s" % (lhs, f)
            for x in flatten(name, sub, depth + 1):
                yield x
    else:
        yield (lhs, t)


def _inlinable_store_callee(body, c):
    """an in-workspace helper (not known by name to any rule, see facts.Program.opaque_names) that writes through
    its reference parameters: its stores are attributed to the caller"""
    prog = getattr(body.unit, "prog", None)
    if prog is None or c is None or c["name"] in prog.opaque_names():
        return None
    cal = prog.bodies.get(c.get("resolved") or c["key"])
    if cal is None or cal.is_closure or cal is body or cal.unit.crate != body.unit.crate or len(cal.blocks) > 120:
        return None
    if not any(cal.local_ty(i)["k"] == "ref" for i in range(1, cal.argc + 1)):
        return None
    return cal


def stores(body, include_locals=True, _depth=0):
    """List of dict(bb, idx, line, lhs, tree, whole_tree, macro) for every assignment to a projected place and
    every call whose destination is a projected place. Stores made by a transparent helper through its reference
    parameters appear as stores of the caller at the call (lhs and value rewritten to the caller's terms)."""
    pv = df.Prov(body)
    out = []
    if _depth < 2:
        for bi, b in enumerate(body.blocks):
            t = b["term"]
            if b["cleanup"] or t["k"] != "call":
                continue
            c0 = mir.callee_of(t)
            cal = _inlinable_store_callee(body, c0)
            if cal is None or cal.argc != len(t["args"]):
                continue
            sub, _ = stores(cal, include_locals=False, _depth=_depth + 1)
            if not sub:
                continue
            argtrees = {i + 1: pv.op_tree(a) for i, a in enumerate(t["args"])}
            names = {cal.local_name(i): i for i in range(1, cal.argc + 1) if cal.local_name(i)}
            for s_ in sub:
                root = s_["lhs"].split(".")[0]
                if root not in names:
                    continue
                base = df.canon(df._project(argtrees[names[root]], "*"), body) if df.strip(argtrees[names[root]])[0] != "path" \
                    else df.canon(argtrees[names[root]], body)
                base = base[1:] if base.startswith("&") else base
                lhs = base + s_["lhs"][len(root):]
                tree = df._subst_params(s_["tree"], argtrees)
                out.append({"bb": bi, "idx": len(b["stmts"]), "line": t["sp"][1], "lhs": lhs, "tree": tree,
                            "whole": df._subst_params(s_["whole"], argtrees), "macro": t["sp"][4], "stmt": t,
                            "inlined_from": cal.key})
    for bi, b in enumerate(body.blocks):
        if b["cleanup"]:
            continue
        for si, s in enumerate(b["stmts"]):
            if s["k"] != "assign" or not s["p"]["proj"]:
                continue
            if s["r"]["k"] in ("discr",):
                continue
            p = s["p"]
            has_deref = any(e[0] == "deref" for e in p["proj"])
            if not has_deref and not include_locals:
                continue
            if not has_deref and not body.local_name(p["l"]):
                continue
            lhs = place_name(body, pv, p)
            tree = pv.rvalue_tree(s["r"])
            for (l2, t2) in flatten(lhs, tree):
                out.append({"bb": bi, "idx": si, "line": s["sp"][1], "lhs": l2, "tree": t2, "whole": tree,
                            "macro": s["sp"][4], "stmt": s})
        t = b["term"]
        if t["k"] == "call":
            c0 = mir.callee_of(t)
            if c0 is not None and c0["name"] in df.OPASSIGN and len(t["args"]) == 2:
                # `place op= value` on a field reached through a reference: synthesize the store
                a0 = pv.op_tree(t["args"][0])
                tgt = df.strip(a0)
                if tgt[0] == "path" and tgt[1][0] in ("arg", "env"):
                    lhs = df.canon(tgt, body)
                    tree = ("call", "core::ops::%s" % df.OPASSIGN[c0["name"]], df.OPASSIGN[c0["name"]],
                            (tgt, pv.op_tree(t["args"][1])))
                    out.append({"bb": bi, "idx": len(b["stmts"]), "line": t["sp"][1], "lhs": lhs, "tree": tree,
                                "whole": tree, "macro": t["sp"][4], "stmt": t, "opassign": True})
        if t["k"] == "call" and t["dest"]["proj"]:
            p = t["dest"]
            has_deref = any(e[0] == "deref" for e in p["proj"])
            if has_deref or body.local_name(p["l"]):
                lhs = place_name(body, pv, p)
                tree = pv.call_tree(t)
                out.append({"bb": bi, "idx": len(b["stmts"]), "line": t["sp"][1], "lhs": lhs, "tree": tree,
                            "whole": tree, "macro": t["sp"][4], "stmt": t})
    return out, pv
