"""Path conditions: for a block, the set of literals that hold on EVERY path from the entry to that block
(edge dominance), with branch conditions resolved through bool temporaries (matches!, &&, ||, if-let guards).

Literals (hashable tuples):
  ("variant", path_tree, frozenset(variant names), adt_name)   the enum at path is one of these variants
  ("cmp", op, ltree, rtree)      op in eq, ne, lt, le, gt, ge  (already oriented to the truth of the edge)
  ("bool", tree, truth)          any other boolean expression tree with the truth value required
  ("int", tree, frozenset(values)|("not", frozenset))
"""
import collections
from . import mir
from . import dataflow as df

KNOWN_ENUMS = {
    "core::option::Option": {0: "None", 1: "Some"},
    "core::result::Result": {0: "Ok", 1: "Err"},
    "core::ops::control_flow::ControlFlow": {0: "Continue", 1: "Break"},
    "core::cmp::Ordering": {255: "Less", 0: "Equal", 1: "Greater", 0xFFFFFFFFFFFFFFFF: "Less"},
}
NEG = {"eq": "ne", "ne": "eq", "lt": "ge", "ge": "lt", "le": "gt", "gt": "le"}
BINOPS = {"Eq": "eq", "Ne": "ne", "Lt": "lt", "Le": "le", "Gt": "gt", "Ge": "ge"}


def variants_of(prog, body, ty_id):
    t = body.ty(ty_id)
    while t["k"] == "ref":
        t = body.ty(t["to"])
    if t["k"] != "adt":
        return None, None
    path = t["path"]
    if path in KNOWN_ENUMS:
        return KNOWN_ENUMS[path], t["name"]
    ent = prog.adts.get(path)
    if ent is None:
        return None, t["name"]
    u, a = ent
    if not a["enum"]:
        return None, t["name"]
    return {v["discr"]: v["name"] for v in a["variants"]}, t["name"]


class Conds:
    def __init__(self, prog, body):
        self.prog = prog
        self.body = body
        self.cfg = mir.cfg(body)
        self.prov = df.Prov(body)
        self.d = df.defs(body)
        self._edge_dom = {}
        self._lits = {}
        self._busy = set()
        self._in = None
        # branch edges
        self.branch_edges = []
        for a in range(self.cfg.n):
            if a in self.cfg.reach and self.body.blocks[a]["term"]["k"] == "switch":
                for s in set(self.cfg.succ[a]):
                    self.branch_edges.append((a, s))

    # ---- edge dominance
    def _reach_without(self, edge):
        a0, s0 = edge
        seen = set()
        st = [0]
        while st:
            x = st.pop()
            if x in seen:
                continue
            seen.add(x)
            for y in self.cfg.succ[x]:
                if x == a0 and y == s0:
                    continue
                st.append(y)
        return seen

    def dominating_edges(self, block):
        """Branch edges (a, s) such that every entry->block path uses the edge."""
        out = []
        for e in self.branch_edges:
            if e not in self._edge_dom:
                self._edge_dom[e] = self._reach_without(e)
            if block not in self._edge_dom[e] and block in self.cfg.reach:
                out.append(e)
        return out

    # ---- conditions of edges
    def edge_literals(self, a, s, depth=0):
        """Literals implied by taking edge a->s (a ends in switchInt)."""
        t = self.body.blocks[a]["term"]
        discr = t["discr"]
        vals_for_s = [v for v, b in t["targets"] if b == s]
        is_otherwise = (t["otherwise"] == s)
        listed = [v for v, b in t["targets"]]
        tree = self.prov.op_tree(discr)
        return self._tree_literals(tree, vals_for_s, is_otherwise, listed, a, depth, discr)

    def _tree_literals(self, tree, vals, is_otherwise, listed, a, depth, discr_op):
        tree0 = df.strip(tree) if tree[0] in ("promoted",) else tree
        k = tree0[0]
        if k == "discr":
            # which enum?
            place_ty = self._discr_place_ty(a, discr_op)
            vmap, adt = (None, None)
            if place_ty is not None:
                vmap, adt = variants_of(self.prog, self.body, place_ty)
            if vmap:
                if is_otherwise:
                    names = frozenset(n for d, n in vmap.items() if d not in listed) | frozenset(
                        vmap[v] for v in vals if v in vmap)
                else:
                    names = frozenset(vmap.get(v, "?%d" % v) for v in vals)
                return {("variant", self._norm(tree0[1]), names, adt)}
            return {("int", self._norm(tree0[1]), frozenset(vals) if not is_otherwise else ("not", frozenset(listed)))}
        # boolean switch: value 0 -> false edge, otherwise -> true
        dty = self.body.ty(self.body.blocks[a]["term"]["dty"])["s"]
        if dty == "bool":
            truth = is_otherwise and 0 in listed or (not is_otherwise and vals == [1])
            if not is_otherwise and vals == [0]:
                truth = False
            return self._bool_literals(tree0, truth, depth)
        bits = {"i8": 8, "i16": 16, "i32": 32, "i64": 64, "i128": 128, "isize": 64}.get(dty)
        if bits:
            sg = lambda v: v - (1 << bits) if v >= (1 << (bits - 1)) else v
            vals = [sg(v) for v in vals]
            listed = [sg(v) for v in listed]
        if is_otherwise:
            return {("int", self._norm(tree0), ("not", frozenset(listed)))}
        return {("int", self._norm(tree0), frozenset(vals))}

    def _discr_place_ty(self, a, discr_op):
        # find the statement `_x = discriminant(P)` defining the discr local
        p = mir.op_place(discr_op)
        if p is None:
            return None
        l = p["l"]
        for (bi, si, d) in self.d.whole.get(l, []):
            if d[0] == "assign" and d[1]["k"] == "discr":
                return d[1]["p"]["ty"]
            if d[0] == "assign" and d[1]["k"] == "use":
                pp = mir.op_place(d[1]["op"])
                if pp is not None:
                    for (bj, sj, d2) in self.d.whole.get(pp["l"], []):
                        if d2[0] == "assign" and d2[1]["k"] == "discr":
                            return d2[1]["p"]["ty"]
        return None

    def _norm(self, t):
        return t

    def _bool_literals(self, tree, truth, depth):
        k = tree[0]
        if depth > 12:
            return {("bool", tree, truth)}
        if k == "call" and tree[2] in ("eq", "ne") and len(tree[3]) == 2:
            op = tree[2] if truth else NEG[tree[2]]
            v = self._variant_test(df.strip(tree[3][0]), df.strip(tree[3][1]), op)
            if v is not None:
                return {v}
            return {("cmp", op, df.strip(tree[3][0]), df.strip(tree[3][1]))}
        if k == "call" and tree[2] in ("lt", "le", "gt", "ge") and len(tree[3]) == 2:
            op = tree[2] if truth else NEG[tree[2]]
            return {("cmp", op, df.strip(tree[3][0]), df.strip(tree[3][1]))}
        if k == "bin" and tree[1] in BINOPS:
            op = BINOPS[tree[1]]
            op = op if truth else NEG[op]
            return {("cmp", op, df.strip(tree[2]), df.strip(tree[3]))}
        if k == "un" and tree[1] == "Not":
            return self._bool_literals(tree[2], not truth, depth + 1)
        if k == "call" and tree[1] in ("bool::and", "bool::or") and len(tree[3]) == 2:
            # and-true / or-false: both sides are decided
            if (tree[2] == "and") == truth:
                return self._bool_literals(df.strip(tree[3][0]), truth, depth + 1) | \
                    self._bool_literals(df.strip(tree[3][1]), truth, depth + 1)
            return {("bool", tree, truth)}
        if k == "const":
            return set()
        if k == "phi":
            # bool temporary assigned in several arms: literals common to all definitions compatible with `truth`
            return self._phi_bool(tree, truth, depth)
        return {("bool", tree, truth)}

    def _variant_test(self, a, b, op):
        """`x == Enum::V` / `x != Enum::V` against a field-less variant value (also the tree a stored
        `matches!(x, Enum::V(..))` or a predicate helper `x.is_v()` is given, see dataflow._lit_tree): the same
        `variant` literal a `match`/`matches!` on x yields, so the spellings are indistinguishable to the rules."""
        if b[0] != "agg" and a[0] == "agg":
            a, b = b, a
        if b[0] != "agg" or b[3] or not b[2] or a[0] == "agg":
            return None
        allv = None
        for path, vm in KNOWN_ENUMS.items():
            if path.split("::")[-1] == b[1]:
                allv = list(vm.values())
        if allv is None:
            for (u, ad) in self.prog.adts.values():
                if ad["name"] == b[1] and ad["enum"]:
                    allv = [v["name"] for v in ad["variants"]]
        if not allv or b[2] not in allv or len(allv) < 2:
            return None
        names = frozenset([b[2]]) if op == "eq" else frozenset(v for v in allv if v != b[2])
        return ("variant", self._norm(a), names, b[1])

    def _phi_bool(self, tree, truth, depth):
        # We need the defining blocks; recompute from the defs of the local is not possible from the tree alone,
        # so phi handling is done in switch_literals() where the local is known.
        return {("bool", tree, truth)}

    def switch_literals(self, a, s, depth=0):
        """edge literals, with bool temporaries (phi of constants / calls) expanded through the blocks that
        define them."""
        if self._in is None:
            self._solve()
        t = self.body.blocks[a]["term"]
        dty = self.body.ty(t["dty"])["s"]
        p = mir.op_place(t["discr"])
        if dty == "bool" and p is not None and not p["proj"]:
            l = self._copy_root(p["l"])
            ds = self.d.whole.get(l, [])
            if len(ds) > 1 or (len(ds) == 1 and self._is_const_def(ds[0])):
                vals = [v for v, b in t["targets"] if b == s]
                truth = (t["otherwise"] == s) if 0 in [v for v, _ in t["targets"]] else (vals == [1])
                if vals == [0] and t["otherwise"] != s:
                    truth = False
                # defs compatible with truth
                compat = []
                for (bi, si, d) in ds:
                    cv = self._const_bool(d)
                    if cv is None:
                        compat.append((bi, si, d, None))
                    elif cv == truth:
                        compat.append((bi, si, d, cv))
                if not compat:
                    return set()
                sets = []
                for (bi, si, d, cv) in compat:
                    lits = set(self._in.get(bi, frozenset())) if self._in is not None else set()
                    if cv is None:
                        # non-constant definition: its own condition
                        if d[0] == "assign":
                            tr = self.prov.rvalue_tree(d[1])
                        else:
                            tr = self.prov.call_tree(d[1])
                        lits |= self._bool_literals(tr, truth, depth + 1)
                    sets.append(lits)
                return join_literal_sets(sets)
        base = self.edge_literals(a, s, depth)
        more = self._variant_phi_literals(a, s, base)
        return (base | more) if more else base

    def _variant_phi_literals(self, a, s, base):
        """switch on the discriminant of a local that is BUILT as an enum aggregate in several blocks (an inlined helper's
        `Some(x)` / `None` results, `if c { Some(v) } else { None }`): taking the edge of variant V means control came
        through a block that built V, so whatever holds at every such block holds here as well."""
        t = self.body.blocks[a]["term"]
        p = mir.op_place(t["discr"])
        if p is None or p["proj"]:
            return None
        src = None
        for (bi, si, d) in self.d.whole.get(p["l"], []):
            if d[0] == "assign" and d[1]["k"] == "discr":
                src = d[1]["p"]
        if src is None or [e for e in src["proj"] if e[0] != "deref"]:
            return None
        names = None
        for l in base:
            if l[0] == "variant":
                names = l[2]
        if not names:
            return None
        # follow whole-local copies/moves back to the local that is assigned the aggregates
        L = src["l"]
        for _ in range(4):
            ds = self.d.whole.get(L, [])
            if len(ds) == 1 and ds[0][2][0] == "assign" and ds[0][2][1]["k"] == "use":
                pp = mir.op_place(ds[0][2][1]["op"])
                if pp is not None and not pp["proj"]:
                    L = pp["l"]
                    continue
            break
        ds = self.d.whole.get(L, [])
        if len(ds) < 2 or L in self.d.partial or L in self.d.mut_borrowed:
            return None
        sets = []
        for (bi, si, d) in ds:
            if not (d[0] == "assign" and d[1]["k"] == "agg" and d[1].get("ak") == "adt" and d[1].get("variant")):
                return None
            if d[1]["variant"] in names:
                if bi not in self._in:
                    return None
                sets.append(set(self._in[bi]))
        if not sets:
            return None
        return join_literal_sets(sets)

    def _copy_root(self, l):
        # follow `_20 = copy _12`
        seen = set()
        while l not in seen:
            seen.add(l)
            ds = self.d.whole.get(l, [])
            if len(ds) == 1 and ds[0][2][0] == "assign" and ds[0][2][1]["k"] == "use":
                pp = mir.op_place(ds[0][2][1]["op"])
                if pp is not None and not pp["proj"] and self.body.local_ty(pp["l"])["s"] == "bool":
                    l = pp["l"]
                    continue
            break
        return l

    def _is_const_def(self, d3):
        return self._const_bool(d3[2]) is not None

    def _const_bool(self, d):
        if d[0] == "assign" and d[1]["k"] == "use":
            v = mir.op_const(d[1]["op"])
            if isinstance(v, bool):
                return v
        return None

    def must_literals(self, block, depth=0):
        """Literals that hold on every path from the entry to `block` (forward must-analysis: the literals at a
        block are the join over its predecessors of the predecessor's literals plus the literals of the edge;
        variant literals on one path are joined by union)."""
        if self._in is None:
            self._solve()
        v = self._in.get(block)
        return v if v is not None else frozenset()

    def _solve(self):
        g = self.cfg
        # reverse post-order of reachable blocks
        order = []
        seen = set()
        st = [(0, iter(g.succ[0]))]
        seen.add(0)
        while st:
            x, it = st[-1]
            adv = False
            for y in it:
                if y not in seen and y != g.EXIT:
                    seen.add(y)
                    st.append((y, iter(g.succ[y])))
                    adv = True
                    break
            if not adv:
                order.append(x)
                st.pop()
        rpo = list(reversed(order))
        self._in = {0: frozenset()}
        for rnd in range(12):
            changed = False
            for b in rpo:
                if b == 0:
                    continue
                sets = []
                for p in g.pred[b]:
                    if p not in self._in:
                        continue
                    base = set(self._in[p])
                    if self.body.blocks[p]["term"]["k"] == "switch":
                        base |= self.switch_literals(p, b, 0)
                    sets.append(base)
                if not sets:
                    continue
                new = frozenset(join_literal_sets(sets))
                if self._in.get(b) != new:
                    self._in[b] = new
                    changed = True
            if not changed:
                break


def join_literal_sets(sets):
    """Literals implied by a disjunction of literal sets: plain literals must occur in every set; variant
    literals on the same path are joined (union of the variant sets) when every set constrains that path."""
    if not sets:
        return set()
    common = set.intersection(*[set(s) for s in sets])
    by_path = []
    for s in sets:
        m = {}
        for l in s:
            if l[0] == "variant":
                key = (l[1], l[3])
                m[key] = m[key] & l[2] if key in m else l[2]
        by_path.append(m)
    keys = set(by_path[0].keys())
    for m in by_path[1:]:
        keys &= set(m.keys())
    for key in keys:
        u = frozenset()
        for m in by_path:
            u |= m[key]
        common.add(("variant", key[0], u, key[1]))
    # drop variant literals subsumed by a stricter literal on the same path
    best = {}
    for l in common:
        if l[0] == "variant":
            k = (l[1], l[3])
            best[k] = best[k] & l[2] if k in best else l[2]
    out = set()
    for l in common:
        if l[0] == "variant":
            if l[2] == best[(l[1], l[3])]:
                out.add(l)
        else:
            out.add(l)
    for k, v in best.items():
        out.add(("variant", k[0], v, k[1]))
    return out


_CONDS = {}


def conds(prog, body):
    k = id(body)
    if k not in _CONDS:
        _CONDS[k] = Conds(prog, body)
    return _CONDS[k]


def lit_str(l):
    if l[0] == "variant":
        return "%s in {%s}" % (df.tree_str(l[1]), ",".join(sorted(l[2])))
    if l[0] == "cmp":
        return "%s %s %s" % (df.tree_str(l[2]), l[1], df.tree_str(l[3]))
    if l[0] == "bool":
        return "%s%s" % ("" if l[2] else "!", df.tree_str(l[1]))
    if l[0] == "int":
        return "%s in %s" % (df.tree_str(l[1]), l[2])
    return str(l)


def has_variant(lits, fields_suffix, allowed):
    """Is there a literal constraining the enum at a path ending with `fields_suffix` to a subset of `allowed`?"""
    for l in lits:
        if l[0] == "variant":
            f = df.path_fields(l[1])
            if f is not None and f[-len(fields_suffix):] == tuple(fields_suffix) and l[2] <= frozenset(allowed):
                return True
    return False


def has_cmp(lits, op, pred_a, pred_b):
    """Is there a literal `a op b` (either order for eq/ne) with pred_a(tree a) and pred_b(tree b)?"""
    for l in lits:
        if l[0] == "cmp" and l[1] == op:
            if pred_a(l[2]) and pred_b(l[3]):
                return True
            if op in ("eq", "ne") and pred_a(l[3]) and pred_b(l[2]):
                return True
    return False


# ---------------------------------------------------------------- interprocedural expansion of boolean helpers

def _subst_tree(t, argmap, pv):
    k = t[0]
    if k == "path":
        r = t[1]
        if r[0] == "arg" and r[1] in argmap:
            cur = argmap[r[1]]
            for n in t[2]:
                cur = pv._project1(cur, n)
            return cur
        return t
    if k == "call":
        return ("call", t[1], t[2], tuple(_subst_tree(a, argmap, pv) for a in t[3]))
    if k == "bin":
        return ("bin", t[1], _subst_tree(t[2], argmap, pv), _subst_tree(t[3], argmap, pv))
    if k == "un":
        return ("un", t[1], _subst_tree(t[2], argmap, pv))
    if k == "cast":
        return ("cast", t[1], _subst_tree(t[2], argmap, pv), t[3])
    if k == "agg":
        return ("agg", t[1], t[2], tuple((f, _subst_tree(s, argmap, pv)) for f, s in t[3]))
    if k in ("ref", "deref", "discr", "promoted"):
        return (k, _subst_tree(t[1], argmap, pv))
    if k == "field":
        return ("field", _subst_tree(t[1], argmap, pv), t[2])
    if k == "phi":
        return ("phi", tuple(_subst_tree(s, argmap, pv) for s in t[1]))
    return t


def _subst_lit(l, argmap, pv):
    if l[0] == "variant":
        return ("variant", df.strip(_subst_tree(l[1], argmap, pv)), l[2], l[3])
    if l[0] == "cmp":
        return ("cmp", l[1], df.strip(_subst_tree(l[2], argmap, pv)), df.strip(_subst_tree(l[3], argmap, pv)))
    if l[0] == "bool":
        return ("bool", _subst_tree(l[1], argmap, pv), l[2])
    if l[0] == "int":
        return ("int", _subst_tree(l[1], argmap, pv), l[2])
    return l


def returns_literals(prog, callee_body, truth):
    """Literals (over the callee's parameters) that hold whenever the bool-returning body returns `truth`."""
    c = conds(prog, callee_body)
    sets = []
    for (bi, si, d) in c.d.whole.get(0, []):
        if d[0] == "assign" and d[1]["k"] == "use":
            v = mir.op_const(d[1]["op"])
            if isinstance(v, bool):
                if v == truth:
                    sets.append(set(c.must_literals(bi)))
                continue
        tr = c.prov.rvalue_tree(d[1]) if d[0] == "assign" else c.prov.call_tree(d[1])
        sets.append(set(c.must_literals(bi)) | c._bool_literals(tr, truth, 0))
    if not sets:
        return set()
    return join_literal_sets(sets)


def returns_variant_literals(prog, callee_body, variant):
    """Literals (over the callee's parameters) that hold whenever the body returns enum variant `variant`
    (Some / Ok / Continue ...): the join over every definition of the return place that builds that variant."""
    c = conds(prog, callee_body)
    sets = []
    for (bi, si, d) in c.d.whole.get(0, []):
        if d[0] == "assign" and d[1]["k"] == "agg" and d[1].get("ak") == "adt":
            if d[1].get("variant") == variant:
                sets.append(set(c.must_literals(bi)))
            continue
        if d[0] == "assign" and d[1]["k"] == "use":
            # moved from a local that was built as the variant somewhere: follow one level
            p = mir.op_place(d[1]["op"])
            if p is not None and not p["proj"]:
                ok_any = False
                for (bj, sj, dj) in c.d.whole.get(p["l"], []):
                    if dj[0] == "assign" and dj[1]["k"] == "agg" and dj[1].get("ak") == "adt":
                        ok_any = True
                        if dj[1].get("variant") == variant:
                            sets.append(set(c.must_literals(bj)) | set(c.must_literals(bi)))
                if ok_any:
                    continue
        return set()        # a definition we cannot classify: no guarantee
    if not sets:
        return set()
    return join_literal_sets(sets)


def expand_literals(prog, body, lits, depth=2):
    """lits plus, for every literal that is the truth value of a call to an in-workspace bool function (or a
    closure passed to with_ref/with_mut), the literals that function guarantees, rewritten to the caller's terms."""
    from .callgraph import callgraph
    cg = callgraph(prog)
    out = set(lits)
    work = list(lits)
    seen = set()
    pv = conds(prog, body).prov
    level = {l: 0 for l in lits}
    while work:
        l = work.pop()
        if l in seen:
            continue
        seen.add(l)
        if level.get(l, 0) >= depth:
            continue
        if l[0] == "variant" and len(l[2]) == 1 and df.strip(l[1])[0] == "call":
            # `helper(args) in {Some}`: what the helper guarantees whenever it returns that variant
            t = df.strip(l[1])
            callee = cg.lookup(body.unit, t[1])
            if callee is not None and not callee.is_closure and callee.unit.crate == body.unit.crate and \
                    callee.argc == len(t[3]):
                argmap = {i + 1: a for i, a in enumerate(t[3])}
                for nl in returns_variant_literals(prog, callee, list(l[2])[0]):
                    nl2 = _subst_lit(nl, argmap, pv)
                    if nl2 not in out:
                        out.add(nl2)
                        level[nl2] = level.get(l, 0) + 1
                        work.append(nl2)
            continue
        if l[0] != "bool":
            continue
        t = df.strip(l[1])
        if t[0] != "call":
            continue
        callee = None
        argmap = {}
        if t[2] in ("with_ref", "with_mut") and len(t[3]) >= 2:
            clo = df.strip(t[3][1])
            if clo[0] == "agg" and clo[1].startswith("closure:"):
                callee = cg.lookup(body.unit, clo[1][len("closure:"):])
                # closure params: arg1 = env, arg2 = the locked state (opaque)
                if callee is not None:
                    caps = dict(clo[3])
                    argmap = {}
                    cpv = conds(prog, callee).prov
        else:
            callee = cg.lookup(body.unit, t[1])
            if callee is not None and not callee.is_closure:
                argmap = {i + 1: a for i, a in enumerate(t[3])}
        if callee is None or callee.local_ty(0)["s"] != "bool":
            continue
        new = returns_literals(prog, callee, l[2])
        for nl in new:
            nl2 = _subst_lit(nl, argmap, pv) if argmap else nl
            if nl2 not in out:
                out.add(nl2)
                level[nl2] = level.get(l, 0) + 1
                work.append(nl2)
    return out


def lit_canon(l, body, positional=False):
    """line-free rendering of a literal (for comparison with spec tables); positional=True hides parameter names"""
    if positional:
        body = df._Positional(body)
    c = lambda t: df.canon(t, body)
    if l[0] == "variant":
        return "%s in {%s}" % (c(l[1]), ",".join(sorted(l[2])))
    if l[0] == "cmp":
        return "%s %s %s" % (c(l[2]), l[1], c(l[3]))
    if l[0] == "bool":
        return "%s%s" % ("" if l[2] else "!", c(l[1]))
    if l[0] == "int":
        v = l[2]
        if isinstance(v, tuple):
            return "%s not in {%s}" % (c(l[1]), ",".join(str(x) for x in sorted(v[1])))
        return "%s in {%s}" % (c(l[1]), ",".join(str(x) for x in sorted(v)))
    return str(l)


def result_rows(prog, body, positional=False):
    """[(result canonical text, sorted literal texts)] for every definition of the return place"""
    c = conds(prog, body)
    nb = df._Positional(body) if positional else body
    rows = []
    for (bi, si, d) in c.d.whole.get(0, []):
        if d[0] == "assign":
            res = df.canon(c.prov.rvalue_tree(d[1]), nb)
        else:
            res = df.canon(c.prov.call_tree(d[1]), nb)
        rows.append((res, sorted(lit_canon(l, body, positional) for l in c.must_literals(bi))))
    return sorted(rows)


# ---------------------------------------------------------------------------------------------------------------
# Normal form of decision rows (used when rows are compared with a spec table): the same decision can be written
# with merged or split match arms, with range patterns in any order, with redundant exclusions. Rows are therefore
# compared after (a) all integer constraints on one subject are folded into ONE interval-set literal over the
# subject's integer type, and (b) a literal `X in {A,B}` is split into one row per variant.
_INT_TY = {"i8": (-2 ** 7, 2 ** 7 - 1), "i16": (-2 ** 15, 2 ** 15 - 1), "i32": (-2 ** 31, 2 ** 31 - 1),
           "i64": (-2 ** 63, 2 ** 63 - 1), "i128": (-2 ** 127, 2 ** 127 - 1), "isize": (-2 ** 63, 2 ** 63 - 1),
           "u8": (0, 2 ** 8 - 1), "u16": (0, 2 ** 16 - 1), "u32": (0, 2 ** 32 - 1), "u64": (0, 2 ** 64 - 1),
           "u128": (0, 2 ** 128 - 1), "usize": (0, 2 ** 64 - 1)}
_FLIP = {"le": "ge", "lt": "gt", "ge": "le", "gt": "lt", "eq": "eq", "ne": "ne"}


def _subj_range(subj):
    import re
    m = re.search(r"cast<([iu](?:\d+|size))>", subj)
    return _INT_TY.get(m.group(1)) if m else (-2 ** 127, 2 ** 127)


def _iv_apply(ivs, op, c):
    out = []
    for (a, b) in ivs:
        if op == "le":
            b = min(b, c)
        elif op == "lt":
            b = min(b, c - 1)
        elif op == "ge":
            a = max(a, c)
        elif op == "gt":
            a = max(a, c + 1)
        elif op == "eq":
            a, b = max(a, c), min(b, c)
        elif op == "ne":
            if a <= c <= b:
                if a <= c - 1:
                    out.append((a, c - 1))
                if c + 1 <= b:
                    out.append((c + 1, b))
                continue
        if a <= b:
            out.append((a, b))
    return out


def norm_rows(rows):
    """rows: iterable of (result text, iterable of literal texts) -> sorted list of (result, tuple(literals))"""
    import re, itertools
    out = set()
    for res, lits in rows:
        ints = {}
        rest = []
        variants = []
        for l in lits:
            m = re.fullmatch(r"(-?\d+) (le|lt|ge|gt|eq|ne) (.+)", l)
            if m and not re.fullmatch(r"-?\d+", m.group(3)):
                ints.setdefault(m.group(3), []).append((_FLIP[m.group(2)], int(m.group(1))))
                continue
            m = re.fullmatch(r"(.+) (le|lt|ge|gt|eq|ne) (-?\d+)", l)
            if m:
                ints.setdefault(m.group(1), []).append((m.group(2), int(m.group(3))))
                continue
            m = re.fullmatch(r"(.+) not in \{(-?\d+(?:,-?\d+)*)\}", l)
            if m:
                for v in m.group(2).split(","):
                    ints.setdefault(m.group(1), []).append(("ne", int(v)))
                continue
            m = re.fullmatch(r"(.+) in \{(-?\d+(?:,-?\d+)*)\}", l)
            if m:
                ints.setdefault(m.group(1), []).append(("in", [int(x) for x in m.group(2).split(",")]))
                continue
            m = re.fullmatch(r"(.+) in \{([A-Za-z_]\w*(?:,[A-Za-z_]\w*)+)\}", l)
            if m:
                variants.append([("%s in {%s}" % (m.group(1), v)) for v in m.group(2).split(",")])
                continue
            rest.append(l)
        for subj, cons in ints.items():
            ivs = [_subj_range(subj)]
            for (op, c) in cons:
                if op == "in":
                    nv = []
                    for v in c:
                        nv += _iv_apply(ivs, "eq", v)
                    ivs = sorted(set(nv))
                else:
                    ivs = _iv_apply(ivs, op, c)
            # merge adjacent
            ivs.sort()
            merged = []
            for (a, b) in ivs:
                if merged and a <= merged[-1][1] + 1:
                    merged[-1] = (merged[-1][0], max(merged[-1][1], b))
                else:
                    merged.append((a, b))
            rest.append("%s in %s" % (subj, "|".join("[%d..%d]" % iv for iv in merged) or "[]"))
        for combo in itertools.product(*variants) if variants else [()]:
            out.add((res, tuple(sorted(rest + list(combo)))))
    return sorted(out)
