"""A-CG: whole-workspace call graph over the MIR facts (DESIGN.md §3).

Nodes are Body objects plus pseudo nodes:
  ("EXTERN", key)            call into another crate (leaf)
  ("EXTERNAL", trait::method) call of a trait method on a generic/dyn receiver: every in-workspace impl is
                             also a successor; the pseudo node stands for host-provided impls.
Edges: direct calls; closure/fn-item creation ("may invoke"); trait dispatch to all in-workspace impls.
"""
import collections
from . import mir


class CallGraph:
    def __init__(self, prog):
        self.prog = prog
        self.by_unit_key = {}
        for b in prog.bodies.values():
            self.by_unit_key[(b.unit.name, b.j["key"])] = b
        self.global_key = {}
        for b in prog.bodies.values():
            self.global_key.setdefault(b.j["key"], b)
        # trait method key -> list of impl bodies
        self.impls_of = collections.defaultdict(list)
        for (u, i) in prog.impls:
            for m in i["methods"]:
                ti = m.get("trait_item")
                if ti:
                    b = self.by_unit_key.get((u.name, m["key"]))
                    if b is not None:
                        self.impls_of[ti].append(b)
        self.edges = {}      # body.key -> list of (target, site) ; target = Body | tuple pseudo
        self.sites = {}
        for b in prog.bodies.values():
            self.edges[b.key] = self._edges_of(b)

    def lookup(self, unit, key):
        b = self.by_unit_key.get((unit.name, key))
        if b is None:
            b = self.global_key.get(key)
            # the statime-linux binary crate is also named `statime`: a key from the lib must not resolve
            # into the bin and vice versa unless it is the same unit
            if b is not None and b.unit.crate == unit.crate and b.unit is not unit:
                # same crate name, different unit (lib vs bin "statime"): only accept if the caller's
                # unit has no such key (cross-crate call from bin to lib is legitimate)
                pass
        return b

    def resolve_callee(self, body, c):
        """Return list of targets for callee descriptor c."""
        out = []
        unit = body.unit
        rk = c.get("resolved")
        if rk:
            b = self.lookup(unit, rk)
            if b is not None:
                return [b]
        if c.get("closure"):
            b = self.lookup(unit, c["closure"])
            if b is not None:
                return [b]
        b = self.lookup(unit, c["key"])
        if b is not None and not c.get("trait"):
            return [b]
        if c.get("trait"):
            impls = self.impls_of.get(c["key"], [])
            if rk is None and (impls or self._is_workspace_trait(c["trait"])):
                out.extend(impls)
                if b is not None:  # default method body in trait
                    out.append(b)
                out.append(("EXTERNAL", "%s::%s" % (c["trait"], c["name"])))
                return out
            if b is not None:
                return [b]
        return [("EXTERN", rk or c["key"])]

    def _is_workspace_trait(self, path):
        for u in self.prog.units:
            if path in u.traits:
                return True
        return False

    def _edges_of(self, body):
        out = []
        for bi, t in mir.iter_terms(body):
            if t["k"] not in ("call", "tailcall"):
                continue
            c = mir.callee_of(t)
            if c is None:
                out.append((("INDIRECT", mir.op_str(t["func"], body)), bi))
                continue
            for tg in self.resolve_callee(body, c):
                out.append((tg, bi))
        # closures / fn items created or referenced
        for bi, si, s in mir.iter_stmts(body):
            if s["k"] != "assign":
                continue
            r = s["r"]
            if r["k"] == "agg" and r["ak"] in ("closure", "coroutine", "coroutine_closure"):
                b = self.lookup(body.unit, r["key"])
                if b is not None:
                    out.append((b, bi))
            for op in _rvalue_operands(r):
                if op["k"] == "const" and "fn" in op:
                    for tg in self.resolve_callee(body, op["fn"]):
                        out.append((tg, bi))
        for bi, t in mir.iter_terms(body, "call"):
            for a in t["args"]:
                if a["k"] == "const" and "fn" in a:
                    for tg in self.resolve_callee(body, a["fn"]):
                        out.append((tg, bi))
        return out

    def succs(self, body):
        return self.edges.get(body.key, [])

    def reachable(self, roots, stop=None):
        """Set of Body objects + pseudo nodes reachable from roots (Bodies). `stop(body)` prunes."""
        seen = {}
        order = []
        work = [(r, None) for r in roots]
        while work:
            n, parent = work.pop()
            k = n.key if not isinstance(n, tuple) else n
            if k in seen:
                continue
            seen[k] = parent
            order.append(n)
            if isinstance(n, tuple):
                continue
            if stop is not None and stop(n):
                continue
            for (tg, site) in self.succs(n):
                work.append((tg, (n, site)))
        return order, seen

    def path_to(self, seen, node):
        """Reconstruct the discovery path to node from `seen` (returned by reachable)."""
        path = []
        k = node.key if not isinstance(node, tuple) else node
        cur = seen.get(k)
        path.append(k)
        while cur is not None:
            n, site = cur
            line = n.blocks[site]["term"]["sp"][1] if site is not None else n.line
            path.append("%s (%s:%d)" % (n.key, n.file, line))
            cur = seen.get(n.key)
        return list(reversed(path))


def _rvalue_operands(r):
    k = r["k"]
    if k in ("use", "cast", "repeat"):
        return [r["op"]]
    if k == "bin":
        return [r["a"], r["b"]]
    if k == "un":
        return [r["a"]]
    if k == "agg":
        return r["ops"]
    return []


_CG_CACHE = {}


def callgraph(prog):
    k = id(prog)
    if k not in _CG_CACHE:
        _CG_CACHE[k] = CallGraph(prog)
    return _CG_CACHE[k]
