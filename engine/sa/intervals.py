"""A-INT (decision tables): for a small acyclic body whose result is decided by branches over ONE integer value X,
enumerate the CFG paths while refining an interval set for X on every switchInt / comparison with a constant,
and return the partition {result description -> list of [lo, hi] intervals}. Purely symbolic over intervals."""
from . import mir, dataflow as df

CMP = {"Lt", "Le", "Gt", "Ge", "Eq", "Ne"}


def _iv_and(ivs, lo, hi):
    out = []
    for (a, b) in ivs:
        x, y = max(a, lo), min(b, hi)
        if x <= y:
            out.append((x, y))
    return out


def _iv_minus_point(ivs, v):
    out = []
    for (a, b) in ivs:
        if a <= v <= b:
            if a <= v - 1:
                out.append((a, v - 1))
            if v + 1 <= b:
                out.append((v + 1, b))
        else:
            out.append((a, b))
    return out


def _merge(ivs):
    ivs = sorted(ivs)
    out = []
    for (a, b) in ivs:
        if out and a <= out[-1][1] + 1:
            out[-1] = (out[-1][0], max(out[-1][1], b))
        else:
            out.append((a, b))
    return out


def decision_table(body, is_x, lo, hi, result_of=None, max_paths=5000):
    """is_x(tree) -> bool tells whether an operand tree denotes X. Returns (table, n_paths) where table maps a
    result key (string) to merged intervals of X for which some path returns that result."""
    pv = df.Prov(body)
    d = df.defs(body)
    table = {}
    n_paths = [0]

    def x_of(op):
        t = df.strip(pv.op_tree(op))
        while t[0] == "cast":
            t = df.strip(t[2])
        return is_x(t)

    def cmp_of_local(l):
        """if local l is `X cmp const` or `const cmp X` return (op, const, x_left)"""
        for (bi, si, dd) in d.whole.get(l, []):
            if dd[0] == "assign" and dd[1]["k"] == "bin" and dd[1]["op"] in CMP:
                a, b = dd[1]["a"], dd[1]["b"]
                ca, cb = mir.op_const(a), mir.op_const(b)
                if cb is not None and not isinstance(cb, bool) and x_of(a):
                    return (dd[1]["op"], cb, True)
                if ca is not None and not isinstance(ca, bool) and x_of(b):
                    return (dd[1]["op"], ca, False)
            if dd[0] == "assign" and dd[1]["k"] == "use":
                p = mir.op_place(dd[1]["op"])
                if p is not None and not p["proj"]:
                    return cmp_of_local(p["l"])
        return None

    def refine_cmp(ivs, op, c, x_left, truth):
        if not x_left:
            op = {"Lt": "Gt", "Le": "Ge", "Gt": "Lt", "Ge": "Le", "Eq": "Eq", "Ne": "Ne"}[op]
        if not truth:
            op = {"Lt": "Ge", "Le": "Gt", "Gt": "Le", "Ge": "Lt", "Eq": "Ne", "Ne": "Eq"}[op]
        if op == "Lt":
            return _iv_and(ivs, lo, c - 1)
        if op == "Le":
            return _iv_and(ivs, lo, c)
        if op == "Gt":
            return _iv_and(ivs, c + 1, hi)
        if op == "Ge":
            return _iv_and(ivs, c, hi)
        if op == "Eq":
            return _iv_and(ivs, c, c)
        return _iv_minus_point(ivs, c)

    def result_key(env):
        if result_of is not None:
            return result_of(env)
        return env.get(0, "?")

    def walk(bb, ivs, env, depth):
        if n_paths[0] > max_paths or depth > 400 or not ivs:
            return
        b = body.blocks[bb]
        env = dict(env)
        for s in b["stmts"]:
            if s["k"] == "assign" and not s["p"]["proj"]:
                r = s["r"]
                l = s["p"]["l"]
                if r["k"] == "use":
                    v = mir.op_const(r["op"])
                    if v is not None:
                        env[l] = repr(v)
                    else:
                        p = mir.op_place(r["op"])
                        if p is not None and not p["proj"] and p["l"] in env:
                            env[l] = env[p["l"]]
                        else:
                            env[l] = "expr:" + df.canon(pv.op_tree(r["op"]), body)
                elif r["k"] == "agg" and r.get("ak") == "adt":
                    env[l] = "%s::%s%s" % (r["name"], r["variant"],
                                           ("(%s)" % ", ".join(df.canon(pv.op_tree(o), body) for o in r["ops"])) if r["ops"] else "")
                else:
                    env[l] = "expr:" + df.canon(pv.rvalue_tree(r), body)
        t = b["term"]
        k = t["k"]
        if k == "return":
            n_paths[0] += 1
            key = result_key(env)
            table.setdefault(key, []).extend(ivs)
            return
        if k == "goto":
            return walk(t["target"], ivs, env, depth + 1)
        if k == "switch":
            dp = mir.op_place(t["discr"])
            if x_of(t["discr"]):
                listed = [v for v, _ in t["targets"]]
                for v, tg in t["targets"]:
                    walk(tg, _iv_and(ivs, v, v), env, depth + 1)
                rest = ivs
                for v in listed:
                    rest = _iv_minus_point(rest, v)
                walk(t["otherwise"], rest, env, depth + 1)
                return
            if dp is not None and not dp["proj"]:
                c = cmp_of_local(dp["l"])
                if c is not None:
                    op, cv, xl = c
                    for v, tg in t["targets"]:
                        walk(tg, refine_cmp(ivs, op, cv, xl, bool(v)), env, depth + 1)
                    # otherwise = true when only 0 is listed
                    listed = [v for v, _ in t["targets"]]
                    if listed == [0]:
                        walk(t["otherwise"], refine_cmp(ivs, op, cv, xl, True), env, depth + 1)
                    elif listed == [1]:
                        walk(t["otherwise"], refine_cmp(ivs, op, cv, xl, False), env, depth + 1)
                    else:
                        walk(t["otherwise"], ivs, env, depth + 1)
                    return
                # bool temp carrying a constant (matches!): follow the known value
                if dp["l"] in env and env[dp["l"]] in ("True", "False"):
                    val = 1 if env[dp["l"]] == "True" else 0
                    for v, tg in t["targets"]:
                        if v == val:
                            return walk(tg, ivs, env, depth + 1)
                    return walk(t["otherwise"], ivs, env, depth + 1)
            for tg in set([tg for _, tg in t["targets"]] + [t["otherwise"]]):
                walk(tg, ivs, env, depth + 1)
            return
        if k in ("call", "assert", "drop"):
            if k == "call" and not t["dest"]["proj"]:
                c = mir.callee_of(t)
                env[t["dest"]["l"]] = "call:" + (c["name"] if c else "?")
            if t.get("target") is not None:
                return walk(t["target"], ivs, env, depth + 1)
            return
        return

    walk(0, [(lo, hi)], {}, 0)
    return {k: _merge(v) for k, v in table.items()}, n_paths[0]


def fmt(ivs):
    return ",".join(("0x%04x" % a) if a == b else ("0x%04x..=0x%04x" % (a, b)) for a, b in ivs)
