"""Effect sites of a handler: writes through `self`, calls handing out `&mut` of self (or of a field) to an
effectful callee, critical sections that write instance state, construction of port actions. Logging is not an
effect. Effect summaries of callees are computed bottom-up over the call graph."""
from . import mir, dataflow as df
from .callgraph import callgraph

PURE_EXTERN_NAMES = {
    # take &mut but do not change observable protocol state by themselves / are formatting or iteration plumbing
    "deref_mut", "as_mut", "borrow_mut", "iter_mut", "as_mut_slice", "into_iter", "by_ref", "fmt", "next", "index_mut",
}
LOG_MACROS = ("log", "trace", "debug", "info", "warn", "error", "format_args", "__log", "tracing")


def is_log_span(sp):
    return any(any(m in x for m in ("log!", "__log", "trace!", "debug!", "info!", "warn!", "error!", "format_args",
                                     "tracing", "event!")) for x in sp[4])


def mut_ref_param_locals(body):
    out = set()
    for l in range(1, body.argc + 1):
        t = body.local_ty(l)
        if t["k"] == "ref" and t["mut"]:
            out.add(l)
    return out


class Effects:
    def __init__(self, prog):
        self.prog = prog
        self.cg = callgraph(prog)
        self.summary = {}
        self._compute()

    def _direct_effect(self, body, pv):
        """stores through a &mut parameter"""
        mparams = mut_ref_param_locals(body)
        if not mparams and not body.is_closure:
            return False
        for bi, si, s in mir.iter_stmts(body):
            if s["k"] != "assign" or is_log_span(s["sp"]):
                continue
            p = s["p"]
            if not any(e[0] == "deref" for e in p["proj"]):
                continue
            t = df.strip(pv.place_tree(p))
            r = df.path_root(t)
            if r is not None and ((r[0] == "arg" and r[1] in mparams) or r[0] == "env"):
                return True
        return False

    def _mut_args_from_params(self, body, pv, t):
        """indices of call arguments that are &mut references derived from a &mut parameter / the closure env"""
        mparams = mut_ref_param_locals(body)
        out = []
        for i, a in enumerate(t["args"]):
            p = mir.op_place(a)
            if p is None:
                continue
            ty = body.ty(p["ty"])
            if not (ty["k"] == "ref" and ty["mut"]):
                continue
            tr = df.strip(pv.op_tree(a))
            r = df.path_root(tr)
            if r is not None and ((r[0] == "arg" and r[1] in mparams) or r[0] == "env"):
                out.append(i)
        return out

    def _compute(self):
        bodies = [b for b in self.prog.bodies.values()]
        pvs = {}
        eff = {}
        calls = {}
        for b in bodies:
            pv = df.Prov(b)
            pvs[b.key] = pv
            eff[b.key] = self._direct_effect(b, pv)
            cl = []
            for bi, t in mir.iter_terms(b, "call"):
                if is_log_span(t["sp"]):
                    continue
                c = mir.callee_of(t)
                ma = self._mut_args_from_params(b, pv, t)
                is_with_mut = c is not None and c["name"] == "with_mut" and "PtpInstanceStateMutex" in (c.get("trait") or "")
                if not ma and not is_with_mut:
                    continue
                cl.append((bi, t, c, ma, is_with_mut))
            calls[b.key] = cl
        changed = True
        while changed:
            changed = False
            for b in bodies:
                if eff[b.key]:
                    continue
                for (bi, t, c, ma, is_with_mut) in calls[b.key]:
                    if is_with_mut:
                        eff[b.key] = True
                        break
                    if c is None:
                        eff[b.key] = True
                        break
                    tg = self.cg.resolve_callee(b, c)
                    hit = False
                    for x in tg:
                        if isinstance(x, tuple):
                            if c["name"] not in PURE_EXTERN_NAMES:
                                hit = True
                        elif eff[x.key]:
                            hit = True
                    if hit:
                        eff[b.key] = True
                        break
                if eff[b.key]:
                    changed = True
        self.summary = eff
        self.calls = calls
        self.pvs = pvs

    def callee_effectful(self, body, c):
        if c is None:
            return True
        for x in self.cg.resolve_callee(body, c):
            if isinstance(x, tuple):
                if c["name"] not in PURE_EXTERN_NAMES:
                    return True
            elif self.summary.get(x.key):
                return True
        return False

    def sites(self, body, exempt_calls=()):
        """[(bb, line, kind, text)] effect sites of `body` w.r.t. its &mut parameters"""
        pv = self.pvs[body.key]
        mparams = mut_ref_param_locals(body)
        out = []
        for bi, si, s in mir.iter_stmts(body):
            if s["k"] != "assign" or is_log_span(s["sp"]):
                continue
            p = s["p"]
            if any(e[0] == "deref" for e in p["proj"]):
                t = df.strip(pv.place_tree(p))
                r = df.path_root(t)
                if r is not None and ((r[0] == "arg" and r[1] in mparams) or r[0] == "env"):
                    out.append((bi, s["sp"][1], "store", df.canon(t, body)))
            if s["r"]["k"] == "agg" and s["r"].get("name") == "PortAction":
                out.append((bi, s["sp"][1], "action", "PortAction::%s" % s["r"]["variant"]))
        for (bi, t, c, ma, is_with_mut) in self.calls[body.key]:
            name = c["name"] if c else "<indirect>"
            if name in exempt_calls:
                continue
            if is_with_mut:
                out.append((bi, t["sp"][1], "with_mut", "instance_state.with_mut"))
            elif self.callee_effectful(body, c):
                out.append((bi, t["sp"][1], "call", "%s(&mut %s)" % (
                    name, ", ".join(df.canon(pv.op_tree(t["args"][i]), body) for i in ma))))
        return out


_EFF = {}


def effects(prog):
    k = id(prog)
    if k not in _EFF:
        _EFF[k] = Effects(prog)
    return _EFF[k]
