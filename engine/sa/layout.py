"""A-LAYOUT: byte layout tables of the wire codec, extracted from the serializers (what is written where) and
the deserializers (what is read from where), as atoms:
  ("u8", off) ("i8", off) ("be", off, width) ("bit", off, bit) ("nested", off, width, Type) ("enum", off)
  ("zero", off, width) ("hi4", off) ("lo4", off) ("version", off) ("sdo", off_hi_nibble, off_low) ("expr", text)
"""
import re
from . import mir, dataflow as df
from .stores import stores

RNG = r"Range\{start: (\d+), end: (\d+)\}"


def _ty_of_callee(key):
    m = re.search(r"<(\w+)( as [^>]*)?>::(de)?serialize", key)
    return m.group(1) if m else "?"


def peel(t):
    """strip `?` plumbing: branch(x), ok_or(x, e), Continue/Some payload projections"""
    while True:
        t = df.strip(t)
        if t[0] == "field" and (t[2].isdigit() or t[2].startswith("as ")):
            t = t[1]
        elif t[0] == "call" and t[2] in ("branch", "ok_or", "unwrap", "expect") and t[3]:
            t = t[3][0]
        else:
            return t


def _peel_text(s):
    prev = None
    while prev != s:
        prev = s
        s = re.sub(r"branch\(ok_or\((.*), WireFormatError::\w+\{\}\)\)$", r"\1", s)
        m = re.fullmatch(r"branch\((.*)\)", s)
        if m:
            s = m.group(1)
    return s


def read_atom(tree, body):
    s = df.canon(tree, body, keep_index=True)
    s = _peel_text(s)
    # a sub-slice taken first (`let b = buffer.get(a..b)?; ... &b[c..d]`) is folded into absolute offsets
    m0 = re.search(r"(?:index|get)\((?:branch\(ok_or\()?get\(buffer, Range\{start: (\d+), end: (\d+)\}\)(?:, WireFormatError::\w+\{\}\)\))?, Range\{start: (\d+), end: (\d+)\}\)", s)
    if m0:
        a0 = int(m0.group(1))
        s = s[:m0.start()] + "index(buffer, Range{start: %d, end: %d})" % (a0 + int(m0.group(3)), a0 + int(m0.group(4))) + s[m0.end():]
    s = re.sub(r"(?:branch\(ok_or\()?get\(buffer, (Range\{start: \d+, end: \d+\})\)(?:, WireFormatError::\w+\{\}\)\))?", r"index(buffer, \1)", s)
    m = re.fullmatch(r"(?:cast<u8>\()?buffer\[(\d+)\]\)?", s)
    if m:
        return ("u8", int(m.group(1)))
    m = re.fullmatch(r"cast<i8>\(buffer\[(\d+)\]\)", s)
    if m:
        return ("i8", int(m.group(1)))
    m = re.fullmatch(r"(?:gt|ne)\(bitand\(buffer\[(\d+)\], shl\(1, (\d+)\)\), 0\)", s)
    if m:
        return ("bit", int(m.group(1)), int(m.group(2)))
    m = re.fullmatch(r"(?:gt|ne)\(bitand\(buffer\[(\d+)\], (\d+)\), 0\)", s)
    if m and bin(int(m.group(2))).count("1") == 1:
        return ("bit", int(m.group(1)), int(m.group(2)).bit_length() - 1)
    m = re.fullmatch(r"from_be_bytes\(unwrap\(try_into\(index\(buffer, %s\)\)\)\)" % RNG, s)
    if m:
        return ("be", int(m.group(1)), int(m.group(2)) - int(m.group(1)))
    m = re.fullmatch(r"(?:branch\()?deserialize\(index\(buffer, %s\)\)\)?" % RNG, s)
    if m:
        t = peel(tree)
        ty = _ty_of_callee(t[1]) if t[0] == "call" else "?"
        return ("nested", int(m.group(1)), int(m.group(2)) - int(m.group(1)), ty)
    m = re.fullmatch(r"from_primitive\(buffer\[(\d+)\]\)", s)
    if m:
        return ("enum", int(m.group(1)))
    m = re.fullmatch(r"from_primitive\(bitand\(buffer\[(\d+)\], 15\)\)", s)
    if m:
        return ("lo4", int(m.group(1)))
    m = re.fullmatch(r"from_byte\(buffer\[(\d+)\]\)", s)
    if m:
        return ("version", int(m.group(1)))
    m = re.fullmatch(r"(?:branch\()?try_(?:into|from)\(bitand\(buffer\[(\d+)\], 15\)\)\)?", s)
    if m:
        return ("lo4", int(m.group(1)))
    m = re.fullmatch(r"SdoId\(bitor\(shl\(cast<u16>\(bitand\(buffer\[(\d+)\], 240\)\), 4\), cast<u16>\(buffer\[(\d+)\]\)\)\)", s)
    if m:
        return ("sdo", int(m.group(1)), int(m.group(2)))
    m = re.fullmatch(r"from_bits\(from_be_bytes\(unwrap\(try_into\(index\(buffer, %s\)\)\)\)\)" % RNG, s)
    if m:
        return ("be", int(m.group(1)), int(m.group(2)) - int(m.group(1)))
    m = re.fullmatch(r"\w+\((?:branch\()?try_into\(index\(buffer, %s\)\)\)?\)?" % RNG, s) or \
        re.fullmatch(r"\w+\(unwrap\(try_into\(index\(buffer, %s\)\)\)\)" % RNG, s)
    if m:
        return ("bytes", int(m.group(1)), int(m.group(2)) - int(m.group(1)))
    return ("expr", s)


def reader_layout(prog, body):
    """flatten the Ok(...) aggregate the deserializer returns: field path -> atom"""
    pv = df.Prov(body)
    ret = df.strip(pv.local_tree(0))
    cands = [ret] if ret[0] != "phi" else list(ret[1])
    okv = None
    for c in cands:
        c = df.strip(c)
        if c[0] == "agg" and c[2] == "Ok":
            okv = df.strip(c[3][0][1])
    out = {}
    if okv is None:
        return out

    def rec(prefix, t):
        t = df.strip(t)
        if t[0] == "agg" and t[1] not in ("Option", "Result", "array", "tuple", "Range") and t[3] and \
                not (len(t[3]) == 1 and t[3][0][0] == "0" and t[1] in ("SdoId", "ClockIdentity")):
            for f, sub in t[3]:
                rec((prefix + "." + f) if prefix else f, sub)
        else:
            out[prefix or "self"] = read_atom(t, body)
    rec("", okv)
    return out


def _byte_atoms(body, pv, target, only=None):
    """(byte index, rhs text, store) for every single-byte store `target[k] = rhs` in body (target: a parameter name
    such as `buffer`, or a local array)"""
    sts, _ = stores(body, include_locals=(target != "buffer"))
    res = []
    for s in sts:
        if s["macro"] or not s["stmt"].get("p"):
            continue
        lhs = df.canon(pv.place_tree(s["stmt"]["p"]), body, keep_index=True)
        m = re.fullmatch(r"%s\[(\d+)\]" % re.escape(target), lhs)
        if not m:
            # a local array: the place tree of an element is phi(<initialiser>[k] | target[k])
            m = re.fullmatch(r"phi\(.*\| %s\[(\d+)\]\)" % re.escape(target), lhs)
        if not m:
            continue
        k = int(m.group(1))
        if only is not None and k != only:
            continue
        res.append((k, df.canon(s["tree"], body, keep_index=True), s))
    return res


def _helper_array_bytes(prog, body, pv, s):
    """`buffer[k] = H(..)[j]` where H is an in-workspace function returning a local byte array it fills element by
    element: the stores of H into element j, re-targeted at buffer[k] (with H's `self` = the caller's).  None if the
    store is not of that form."""
    t = df.strip(s["tree"])
    txt = df.canon(t, body, keep_index=True)
    m = re.fullmatch(r"(\w+)\(self\)\.\[(\d+)\]", txt)
    if not m:
        return None
    j = int(m.group(2))
    # the call inside the tree
    call = t
    while call[0] in ("field", "ref", "deref") or (call[0] == "path"):
        if call[0] == "path":
            return None
        call = df.strip(call[1])
    if call[0] != "call":
        return None
    helper = prog.bodies.get(call[1])
    if helper is None or helper.unit.crate != body.unit.crate or helper.argc != 1:
        return None
    hp = df.Prov(helper)
    rd = df.defs(helper).whole.get(0, [])
    if len(rd) != 1 or rd[0][2][0] != "assign" or rd[0][2][1]["k"] != "use":
        return None
    rp = mir.op_place(rd[0][2][1]["op"])
    if rp is None or rp["proj"] or not helper.local_name(rp["l"]):
        return None
    tgt = helper.local_name(rp["l"])
    # initial value of the array
    init_zero = False
    for (bi, si, dd) in df.defs(helper).whole.get(rp["l"], []):
        if dd[0] == "assign" and dd[1]["k"] == "repeat" and mir.op_const(dd[1]["op"]) == 0:
            init_zero = True
    res = []
    if init_zero:
        res.append(("0", None))
    for (k2, rhs, s2) in _byte_atoms(helper, hp, tgt, only=j):
        rhs = re.sub(r"phi\(\d+\(0\)\.\[%d\] \| %s\[%d\]\)" % (j, re.escape(tgt), j), "%s[%d]" % (tgt, j), rhs)
        res.append((rhs, s2))
    return res, tgt


def _local_array_bytes(body, pv, rhs):
    """`buffer[k] = LOCAL[j]` where LOCAL is a named local byte array of this body that is filled element by element
    (also what a helper returning such an array looks like once it is inlined): the stores into element j."""
    m = re.fullmatch(r"(?:phi\(\d+\(0\)\.\[(\d+)\] \| )?(\w+)\[(\d+)\]\)?", rhs)
    if not m or m.group(2) == "buffer":
        return None
    tgt, j = m.group(2), int(m.group(3))
    loc = [i for i, l in enumerate(body.locals) if l.get("name") == tgt and body.ty(l["ty"])["k"] == "array"]
    if len(loc) != 1:
        return None
    init_zero = False
    for (bi, si, dd) in df.defs(body).whole.get(loc[0], []):
        if dd[0] == "assign" and dd[1]["k"] == "repeat" and mir.op_const(dd[1]["op"]) == 0:
            init_zero = True
    res = []
    if init_zero:
        res.append(("0", None))
    for (k2, rhs2, s2) in _byte_atoms(body, pv, tgt, only=j):
        rhs2 = re.sub(r"phi\(\d+\(0\)\.\[%d\] \| %s\[%d\]\)" % (j, re.escape(tgt), j), "%s[%d]" % (tgt, j), rhs2)
        res.append((rhs2, s2))
    return (res, tgt) if len(res) > (1 if init_zero else 0) else None


def writer_layout(prog, body):
    """list of (atom, source canonical text) for everything the serializer writes into `buffer`"""
    pv = df.Prov(body)
    out = []
    work = []
    for (k, rhs, s) in _byte_atoms(body, pv, "buffer"):
        ha = _helper_array_bytes(prog, body, pv, s) or _local_array_bytes(body, pv, rhs)
        if ha is not None and ha[0]:
            for (rhs2, s2) in ha[0]:
                # the helper's element plays the role of buffer[k]
                work.append((k, re.sub(r"\b%s\[\d+\]" % re.escape(ha[1]), "buffer[%d]" % k, rhs2)))
        else:
            work.append((k, rhs))
    for (k, rhs) in work:
        if rhs == "0":
            out.append((("zero", k, 1), "0"))
            continue
        mm = re.fullmatch(r"bitor\(buffer\[%d\], shl\(cast<u8>\((.+?)\), (\d+)\)\)" % k, rhs)
        if mm:
            out.append((("bit", k, int(mm.group(2))), mm.group(1)))
            continue
        mm = re.fullmatch(r"bitor\(buffer\[%d\], cast<u8>\((.+?)\)\)" % k, rhs)
        if mm:
            out.append((("bit", k, 0), mm.group(1)))
            continue
        mm = re.fullmatch(r"cast<u8>\((self\.[\w.]+)\)", rhs)
        if mm:
            out.append((("i8", k), mm.group(1)))
            continue
        mm = re.fullmatch(r"to_primitive\((self\.[\w.]+)\)", rhs)
        if mm:
            out.append((("enum", k), mm.group(1)))
            continue
        mm = re.fullmatch(r"(self\.[\w.]+)", rhs)
        if mm:
            out.append((("u8", k), mm.group(1)))
            continue
        mm = re.fullmatch(r"as_byte\((self\.[\w.]+)\)", rhs)
        if mm:
            out.append((("version", k), mm.group(1)))
            continue
        mm = re.fullmatch(r"low_byte\((self\.[\w.]+)\)", rhs)
        if mm:
            out.append((("sdo_lo", k), mm.group(1)))
            continue
        mm = re.fullmatch(r"bitor\(shl\(high_byte\((self\.[\w.]+)\), 4\), bitand\(cast<u8>\(discr\((\w+)\)\), 15\)\)", rhs)
        if mm:
            out.append((("sdo_hi", k), mm.group(1)))
            out.append((("lo4", k), mm.group(2)))
            continue
        out.append((("expr", k, rhs), rhs))
    for bi, t, cal in mir.iter_calls(body):
        if t["sp"][4]:
            continue
        if cal["name"] == "copy_from_slice":
            s = df.canon(pv.call_tree(t), body, keep_index=True)
            m = re.fullmatch(r"copy_from_slice\(index_mut\(buffer, %s\), (.*)\)" % RNG, s)
            if not m:
                out.append((("expr", -1, s), s))
                continue
            a, b = int(m.group(1)), int(m.group(2))
            src = m.group(3)
            mm = re.fullmatch(r"(?:cast<&\[u8\]>\()?to_be_bytes\((.+?)\)\)?", src)
            if mm:
                srcf = mm.group(1)
                m3 = re.fullmatch(r"to_bits\((self[\w.]*)\)", srcf)
                if m3:
                    srcf = m3.group(1)
                out.append((("be", a, b - a), srcf))
                continue
            if re.fullmatch(r"(?:cast<&\[u8\]>\()?array\{(\d+: 0(, )?)+\}\)?", src):
                out.append((("zero", a, b - a), "0"))
                continue
            mm = re.fullmatch(r"(?:cast<&\[u8\]>\()?(self[\w.]*)\)?", src)
            if mm:
                out.append((("bytes", a, b - a), mm.group(1)))
                continue
            out.append((("expr", a, s), s))
        elif cal["name"] == "fill" and len(t["args"]) == 2:
            s = df.canon(pv.call_tree(t), body, keep_index=True)
            m = re.fullmatch(r"fill\(index_mut\(buffer, %s\), 0\)" % RNG, s)
            if m:
                out.append((("zero", int(m.group(1)), int(m.group(2)) - int(m.group(1))), "0"))
            else:
                out.append((("expr", -1, s), s))
        elif cal["name"] == "serialize" and len(t["args"]) == 2:
            s = df.canon(pv.call_tree(t), body, keep_index=True)
            s = re.sub(r"split_at_mut\(buffer, (\d+)\)$", r"index_mut(buffer, Range{start: 0, end: \1})", s[:-1]) + ")" \
                if re.search(r"split_at_mut\(buffer, \d+\)\)$", s) else s
            m = re.fullmatch(r"serialize\((self[\w.]*), index_mut\(buffer, %s\)\)" % RNG, s)
            if m:
                out.append((("nested", int(m.group(2)), int(m.group(3)) - int(m.group(2)),
                             _ty_of_callee(cal.get("resolved") or cal["key"])), m.group(1)))
            else:
                out.append((("expr", -1, s), s))
    return out
