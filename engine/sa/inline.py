"""Inlining of small pure in-workspace functions into expression trees (constructors such as
InternalParentDS::new(default_ds)), so that a refactor that moves a struct literal into a helper does not change
the extracted wiring tables."""
from . import dataflow as df
from .callgraph import callgraph
from .conds import _subst_tree


def _pure_simple(body):
    # no stores through references, no loops: a straight constructor/helper
    if len(body.blocks) > 40:
        return False
    for b in body.blocks:
        if b["cleanup"]:
            continue
        for s in b["stmts"]:
            if s["k"] == "assign" and any(e[0] == "deref" for e in s["p"]["proj"]):
                return False
    return True


def inline_tree(prog, body, t, depth=2):
    if depth <= 0:
        return t
    k = t[0]
    if k == "call":
        args = tuple(inline_tree(prog, body, a, depth) for a in t[3])
        cg = callgraph(prog)
        callee = cg.lookup(body.unit, t[1])
        if callee is not None and not callee.is_closure and callee.unit.name == body.unit.name and _pure_simple(callee) \
                and callee.argc == len(args):
            pv = df.Prov(callee)
            rt = pv.local_tree(0)
            if df.strip(rt)[0] == "agg":
                argmap = {i + 1: a for i, a in enumerate(args)}
                sub = _subst_tree(rt, argmap, df.Prov(body))
                return inline_tree(prog, body, sub, depth - 1)
        return ("call", t[1], t[2], args)
    if k == "agg":
        return ("agg", t[1], t[2], tuple((f, inline_tree(prog, body, s, depth)) for f, s in t[3]))
    if k in ("ref", "deref", "promoted"):
        return (k, inline_tree(prog, body, t[1], depth))
    if k == "phi":
        return ("phi", tuple(inline_tree(prog, body, s, depth) for s in t[1]))
    return t
