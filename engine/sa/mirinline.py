"""MIR-level inlining of NEW functions.

engine/spec/known_bodies.json lists every function of the pinned tree (all configurations). A function of the
current tree that is not in it (and was not recognised as a rename, facts._pin_function_names) did not exist when
the rules, spec tables and ledgers were written: typically a helper a maintainer extracted, a predicate method, a
closure turned into a named function. The rules are phrased over the functions of the pinned tree, so the fact
loader gives them the program in that shape: every call of a new, non-recursive, same-crate function is replaced
by a copy of its body (locals and blocks renumbered, parameters bound by assignments, `return` turned into an
assignment of the call's destination and a jump to its continuation). The same is done for

  * a NEW local closure that is called directly (`flag(6, 0)`): Fn::call on a local whose definition is the closure;
  * a new function passed BY NAME to with_ref / with_mut (`with_ref(PtpInstanceState::is_slave_only)`): a wrapper
    closure `|s| f(s)` is synthesised, so the argument has the shape the pinned tree has (a closure).

A new function whose every use was inlined is dropped from the program; its own closures stay (re-parented to the
first caller). Inlining is semantics-preserving, so a defect inside a new function is still analysed - in the
context of each caller, which is where the rules look. Nothing changes on the pinned tree itself (no new functions).
"""
import copy, json, os

_KNOWN = None
MAX_BLOCKS = 400
MAX_ROUNDS = 4


def known_bodies():
    global _KNOWN
    if _KNOWN is None:
        p = os.path.join(os.path.dirname(os.path.dirname(os.path.abspath(__file__))), "spec", "known_bodies.json")
        try:
            _KNOWN = set(json.load(open(p))) if not os.environ.get("VERIF_NO_INLINE") else set()
        except (OSError, ValueError):
            _KNOWN = set()
    return _KNOWN


def _is_test_key(k):
    return "::tests::" in k or k.endswith("::tests") or "::test::" in k


def _walk(o, f):
    if isinstance(o, dict):
        f(o)
        for v in o.values():
            _walk(v, f)
    elif isinstance(o, list):
        for v in o:
            _walk(v, f)


def _fn_refs(o, out):
    """keys of every function named inside o (call targets and fn items used as values)"""
    def f(d):
        fn = d.get("fn")
        if isinstance(fn, dict) and isinstance(fn.get("key"), str):
            out.append(fn.get("resolved") or fn["key"])
            if fn.get("resolved"):
                out.append(fn["key"])
    _walk(o, f)


def _shift(obj, nl, nb, pmap):
    """renumber locals (+nl), blocks (+nb) and promoted indices inside a copied block list"""
    def f(d):
        if "l" in d and isinstance(d.get("proj"), list) and isinstance(d["l"], int):
            d["l"] += nl
            for e in d["proj"]:
                if e and e[0] == "index" and isinstance(e[1], int):
                    e[1] += nl
        if d.get("k") == "const" and d.get("promoted") is not None and not isinstance(d.get("promoted"), bool):
            d["promoted"] = pmap.get(d["promoted"], d["promoted"])
    _walk(obj, f)
    for blk in obj:
        t = blk["term"]
        for fld in ("target", "unwind", "otherwise", "drop"):
            if isinstance(t.get(fld), int) and not isinstance(t.get(fld), bool):
                t[fld] += nb
        if t["k"] == "switch":
            t["targets"] = [[v, b + nb] for v, b in t["targets"]]


def _single_def(body, l):
    """the unique `assign` statement that defines whole local l (None when there is none or several)"""
    found = None
    for blk in body.blocks:
        for s in blk["stmts"]:
            if s["k"] == "assign" and s["p"]["l"] == l and not s["p"]["proj"]:
                if found is not None:
                    return None
                found = s
        t = blk["term"]
        if t["k"] == "call" and t["dest"]["l"] == l and not t["dest"]["proj"]:
            return None
    return found


def _closure_of_operand(body, op, depth=0):
    """key of the closure a call operand denotes: the local (or a reference to / copy of the local) whose single
    definition is a closure aggregate"""
    if depth > 4 or op.get("k") not in ("copy", "move"):
        return None
    p = op["p"]
    if [e for e in p["proj"] if e[0] != "deref"]:
        return None
    s = _single_def(body, p["l"])
    if s is None:
        return None
    r = s["r"]
    if r["k"] == "agg" and r.get("ak") == "closure":
        return r.get("key")
    if r["k"] == "ref" and not [e for e in r["p"]["proj"] if e[0] != "deref"]:
        return _closure_of_operand(body, {"k": "copy", "p": r["p"]}, depth + 1)
    if r["k"] == "use":
        return _closure_of_operand(body, r["op"], depth + 1)
    return None


def _inline_call(caller, bi, callee, untuple=False):
    blk = caller.blocks[bi]
    t = blk["term"]
    nl = len(caller.locals)
    nb = len(caller.blocks)
    # promoted constants of the callee
    pmap = {}
    base = max([pr["idx"] for pr in caller.promoted] + [-1]) + 1
    for pr in callee.promoted:
        c = copy.deepcopy(pr)
        pmap[pr["idx"]] = base + pr["idx"]
        c["idx"] = base + pr["idx"]
        caller.promoted.append(c)
    for l in callee.locals:
        caller.locals.append(dict(l))
    blocks = copy.deepcopy(callee.blocks)
    _shift(blocks, nl, nb, pmap)
    sp = t["sp"]
    # bind the parameters
    args = t["args"]
    if untuple:
        blk["stmts"].append({"k": "assign", "p": {"l": nl + 1, "proj": [], "ty": callee.locals[1]["ty"]},
                             "r": {"k": "use", "op": args[0]}, "sp": sp})
        tup = args[1]
        for i in range(2, callee.argc + 1):
            ty = callee.locals[i]["ty"]
            if tup.get("k") in ("copy", "move"):
                src = {"k": "copy", "p": {"l": tup["p"]["l"], "proj": list(tup["p"]["proj"]) + [["field", i - 2, str(i - 2), ty]],
                                          "ty": ty}}
            else:
                return False
            blk["stmts"].append({"k": "assign", "p": {"l": nl + i, "proj": [], "ty": ty}, "r": {"k": "use", "op": src}, "sp": sp})
    else:
        for i, a in enumerate(args):
            ty = callee.locals[i + 1]["ty"]
            blk["stmts"].append({"k": "assign", "p": {"l": nl + 1 + i, "proj": [], "ty": ty}, "r": {"k": "use", "op": a}, "sp": sp})
    dest, target = t["dest"], t.get("target")
    for b2 in blocks:
        t2 = b2["term"]
        if t2["k"] == "return":
            b2["stmts"].append({"k": "assign", "p": dest, "r": {"k": "use", "op": {"k": "move", "p": {
                "l": nl, "proj": [], "ty": callee.locals[0]["ty"]}}}, "sp": t2["sp"]})
            b2["term"] = {"k": "goto", "target": target, "sp": t2["sp"]} if target is not None else \
                {"k": "unreachable", "sp": t2["sp"]}
    blk["term"] = {"k": "goto", "target": nb, "sp": sp}
    caller.blocks.extend(blocks)
    caller._cfg = None
    caller._transp = None
    return True


def _wrap_fn_item(prog, unit, caller, fkey, fbody, n):
    """synthesised `|s| f(s)` for a new function passed by name"""
    from .facts import Body
    key = "%s::{closure#fn-%d}" % (caller.j["key"], n)
    cj = caller.j
    # the pinned tree may have had a closure here: take the key of a pinned closure of this caller that is gone and
    # has the same shape (one parameter besides the environment, same return type)
    from .facts import pinned_names
    pre = cj["key"] + "::{closure#"
    have = {b.j["key"] for b in unit.bodies.values()}
    ret_s = unit.types[fbody.locals[0]["ty"]]["s"]
    for k, e in sorted(pinned_names().items()):
        if k.startswith(pre) and "::" not in k[len(pre):] and e.get("closure") and e.get("unit") == unit.name \
                and k not in have and e.get("argc") == 1 + fbody.argc and e.get("ret") == ret_s:
            key = k
            break
    j = {"key": key, "path": key, "name": key.rsplit("::", 1)[1], "module": cj["module"], "def_kind": "Closure",
         "self_ty": cj.get("self_ty"), "self_name": cj.get("self_name"), "closure": True, "const_item": False,
         "coroutine": False, "pub": False, "asyncness": False, "reachable": cj.get("reachable"), "exported": False,
         "sp": list(fbody.j["sp"]), "argc": 1 + fbody.argc, "generics": list(cj.get("generics") or []), "parent": cj["key"],
         "trait": cj.get("trait"), "trait_ref": cj.get("trait_ref"), "promoted": [], "synthetic": True}
    ret_ty = fbody.locals[0]["ty"]
    locs = [{"ty": ret_ty, "name": None}, {"ty": ret_ty, "name": None}]
    for i in range(1, fbody.argc + 1):
        locs.append({"ty": fbody.locals[i]["ty"], "name": fbody.locals[i].get("name")})
    sp = list(fbody.j["sp"])[:4] + [[]]
    call = {"k": "call", "func": {"k": "const", "ty": 0, "fn": {"key": fkey, "path": fbody.path, "name": fbody.name,
                                                                 "crate": unit.crate, "targs": [], "rkind": "item"}},
            "args": [{"k": "move", "p": {"l": 1 + i, "proj": [], "ty": fbody.locals[i]["ty"]}} for i in range(1, fbody.argc + 1)],
            "dest": {"l": 0, "proj": [], "ty": ret_ty}, "target": 1, "unwind": None, "sp": sp, "fn_sp": sp, "src": "normal"}
    j["locals"] = locs
    j["blocks"] = [{"stmts": [], "term": call, "cleanup": False}, {"stmts": [], "term": {"k": "return", "sp": sp}, "cleanup": False}]
    b = Body(unit, j, key)
    return b


def inline_new_functions(prog):
    known = known_bodies()
    if not known:
        return {}
    report = {}
    for u in prog.units:
        new = {}
        cur_keys = {b.j["key"] for b in u.bodies.values()}
        moved_names = {x.split("|", 1)[1].rsplit("::", 1)[-1] for x in known
                       if x.startswith(u.name + "|") and x.split("|", 1)[1] not in cur_keys and "{closure" not in x}
        for k, b in u.bodies.items():
            if "%s|%s" % (u.name, b.j["key"]) in known or _is_test_key(b.j["key"]) or b.j.get("coroutine"):
                continue
            if len(b.blocks) > MAX_BLOCKS:
                continue
            if not b.is_closure and b.name in moved_names:
                # it has the name of a pinned function that is gone (the function moved and changed its signature on
                # the way, e.g. a free function became a method): it keeps its identity and is checked on its own
                continue
            new[b.j["key"]] = b
        if not new:
            continue
        new_fns = {k: b for k, b in new.items() if not b.is_closure}
        new_clos = {k: b for k, b in new.items() if b.is_closure}
        # recursion among new functions: those are left alone
        calls = {}
        for k, b in new_fns.items():
            refs = []
            _fn_refs(b.blocks, refs)
            calls[k] = {r for r in refs if r in new_fns}

        def reaches(a, tgt, seen):
            for x in calls.get(a, ()):
                if x == tgt:
                    return True
                if x not in seen:
                    seen.add(x)
                    if reaches(x, tgt, seen):
                        return True
            return False
        rec = {k for k in new_fns if reaches(k, k, set())}
        inl_fns = {k: b for k, b in new_fns.items() if k not in rec}
        first_caller = {}
        done = []
        # fn items passed by name to with_ref / with_mut
        nsyn = 0
        for body in list(u.bodies.values()):
            if _is_test_key(body.j["key"]):
                continue
            for bi, blk in enumerate(body.blocks):
                t = blk["term"]
                if t["k"] != "call" or blk.get("cleanup"):
                    continue
                fn = t["func"].get("fn") if isinstance(t["func"], dict) else None
                if not fn or fn.get("name") not in ("with_ref", "with_mut") or len(t["args"]) != 2:
                    continue
                a = t["args"][1]
                afn = a.get("fn") if a.get("k") == "const" else None
                if not afn:
                    continue
                fk = afn.get("resolved") or afn.get("key")
                if fk not in inl_fns or inl_fns[fk].argc != 1:
                    continue
                w = _wrap_fn_item(prog, u, body, fk, inl_fns[fk], nsyn)
                nsyn += 1
                u.bodies[w.key] = w
                prog.bodies[w.key] = w
                nl = len(body.locals)
                u.types.append({"s": "{closure@%s}" % w.key, "k": "closure", "key": w.key, "args": []})
                cty = len(u.types) - 1
                w.locals[1]["ty"] = cty
                a = dict(a, ty=cty)
                body.locals.append({"ty": cty, "name": None})
                blk["stmts"].append({"k": "assign", "p": {"l": nl, "proj": [], "ty": a.get("ty", 0)},
                                     "r": {"k": "agg", "ak": "closure", "key": w.key, "name": "closure", "variant": None,
                                           "fields": [], "ops": [], "path": w.key, "targs": [], "of": None, "vidx": None},
                                     "sp": t["sp"]})
                t["args"][1] = {"k": "move", "p": {"l": nl, "proj": [], "ty": a.get("ty", 0)}}
                done.append("%s: %s passed by name -> wrapper closure" % (body.key, fk))
        for _ in range(MAX_ROUNDS):
            changed = False
            for body in list(u.bodies.values()):
                if _is_test_key(body.j["key"]):
                    continue
                bi = 0
                while bi < len(body.blocks) and len(body.blocks) < 4000:
                    blk = body.blocks[bi]
                    t = blk["term"]
                    bi += 1
                    if t["k"] != "call" or blk.get("cleanup"):
                        continue
                    fn = t["func"].get("fn") if isinstance(t["func"], dict) else None
                    if not fn:
                        continue
                    k = fn.get("resolved") or fn.get("key")
                    if k in inl_fns and inl_fns[k] is not body and inl_fns[k].argc == len(t["args"]):
                        if _inline_call(body, bi - 1, inl_fns[k]):
                            first_caller.setdefault(k, body.j["key"])
                            done.append("%s: call of %s inlined" % (body.key, k))
                            changed = True
                        continue
                    if fn.get("name") in ("call", "call_mut", "call_once") and "ops::function" in (fn.get("path") or fn.get("key") or "") \
                            and len(t["args"]) == 2:
                        ck = _closure_of_operand(body, t["args"][0])
                        if ck in new_clos and new_clos[ck] is not body and new_clos[ck].parent == body.j["key"]:
                            if _inline_call(body, bi - 1, new_clos[ck], untuple=True):
                                done.append("%s: direct call of closure %s inlined" % (body.key, ck))
                                changed = True
            if not changed:
                break
        # drop new local closures whose every use was an inlined direct call
        for ck, cb in list(new_clos.items()):
            par = u.bodies.get(cb.parent) or next((b for b in u.bodies.values() if b.j["key"] == cb.parent), None)
            if par is None or not any(("closure %s inlined" % ck) in d and d.startswith(par.key + ":") for d in done):
                continue
            alias = set()
            for _ in range(4):
                for blk in par.blocks:
                    for s_ in blk["stmts"]:
                        if s_["k"] != "assign" or s_["p"]["proj"]:
                            continue
                        r = s_["r"]
                        if r["k"] == "agg" and r.get("ak") == "closure" and r.get("key") == ck:
                            alias.add(s_["p"]["l"])
                        src = r.get("p") if r["k"] == "ref" else (r["op"].get("p") if r["k"] == "use" and isinstance(r.get("op"), dict) else None)
                        if src is not None and src["l"] in alias and not [e for e in src["proj"] if e[0] != "deref"]:
                            alias.add(s_["p"]["l"])
            escapes = False
            for blk in par.blocks:
                t = blk["term"]
                if t["k"] == "call":
                    for a in t["args"]:
                        pa = a.get("p") if a.get("k") in ("copy", "move") else None
                        if pa is not None and pa["l"] in alias and not [e for e in pa["proj"] if e[0] != "deref"]:
                            escapes = True
            if escapes:
                continue
            for kk in [kk for kk, b in u.bodies.items() if b is cb]:
                del u.bodies[kk]
            for kk in [kk for kk, b in prog.bodies.items() if b is cb]:
                del prog.bodies[kk]
            done.append("%s: every use inlined, closure body dropped" % ck)
        # drop new functions that are not referenced any more
        for k, fb in list(inl_fns.items()):
            if fb.j.get("pub") and fb.j.get("exported"):
                continue
            refs = []
            for body in u.bodies.values():
                if body is fb or (body.is_closure and (body.parent or "").startswith(k)):
                    continue
                _fn_refs(body.blocks, refs)
            if k in refs:
                continue
            if k not in first_caller:
                continue
            for kk in [kk for kk, b in u.bodies.items() if b is fb]:
                del u.bodies[kk]
            for kk in [kk for kk, b in prog.bodies.items() if b is fb]:
                del prog.bodies[kk]
            for b in u.bodies.values():
                if b.is_closure and b.parent == k:
                    b.parent = first_caller[k]
            done.append("%s: every use inlined, body dropped" % k)
        if done:
            report[u.name] = done
    return report
