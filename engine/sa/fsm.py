"""A-FSM: the port state machine as the code implements it — one row per call of set_forced_port_state."""
from . import mir, dataflow as df, conds as cnd

STATES = ("Faulty", "Listening", "Master", "Passive", "Slave")
SHORT = {"Faulty": "F", "Listening": "L", "Master": "M", "Passive": "P", "Slave": "S"}


def port_state_set(lits, root=("arg", 1)):
    """Possible PortState variants of self.port_state implied by a literal set."""
    cur = set(STATES)
    for l in lits:
        if l[0] == "variant" and l[3] == "PortState":
            t = df.strip(l[1])
            if t[0] == "path" and t[1] == root and df.path_fields(t) == ("port_state",):
                cur &= set(l[2])
    return cur


def tree_variant(t, adt):
    t = df.strip(t)
    if t[0] == "agg" and t[1] == adt:
        return {t[2]}
    if t[0] == "phi":
        out = set()
        for x in t[1]:
            v = tree_variant(x, adt)
            if v is None:
                return None
            out |= v
        return out
    return None


def action_sites(body):
    """Blocks where a PortAction::X aggregate is constructed: list of (bb, variant, line)."""
    out = []
    for bi, si, s in mir.iter_stmts(body):
        if s["k"] == "assign" and s["r"]["k"] == "agg" and s["r"].get("name") == "PortAction":
            out.append((bi, s["r"]["variant"], s["sp"][1]))
    return out


def transitions(prog):
    """Rows: dict(body, bb, line, from, to, lits, actions_post (variants constructed in blocks that post-dominate the
    call), actions_any)."""
    rows = []
    for b in prog.bodies.values():
        if b.unit.name != "statime-lib" or b.is_test():
            continue
        calls = [(bi, t) for bi, t, c in mir.iter_calls(b, name="set_forced_port_state")]
        if not calls:
            continue
        c = cnd.conds(prog, b)
        pv = c.prov
        g = mir.cfg(b)
        acts = action_sites(b)
        for (bi, t) in calls:
            lits = c.must_literals(bi)
            frm = port_state_set(lits)
            to = tree_variant(pv.op_tree(t["args"][1]), "PortState") if len(t["args"]) > 1 else None
            post = sorted({v for (ab, v, ln) in acts if ab == bi or g.postdominates(ab, bi)})
            after = g.reachable_from(t["target"]) if t.get("target") is not None else set()
            anyv = sorted({v for (ab, v, ln) in acts if ab in after})
            rows.append({"body": b, "bb": bi, "line": t["sp"][1], "from": frm, "to": to, "lits": lits,
                         "actions_post": post, "actions_any": anyv})
    rows.sort(key=lambda r: (r["body"].key, r["line"]))
    return rows


def row_str(r):
    return "%s:%d  {%s} -> %s  actions=%s" % (
        r["body"].key.split("::")[-1], r["line"], "".join(sorted(SHORT[s] for s in r["from"])),
        "/".join(sorted(r["to"])) if r["to"] else "?", r["actions_post"])
