//! Typed HIR export: one expression tree per fn/method body (closures and async blocks inlined).
//! Used for the async daemon code, where coroutine MIR no longer has source-level loops.

use crate::json::J;
use crate::Cx;
use rustc_hir as hir;
use rustc_hir::def::{DefKind, Res};
use rustc_hir::def_id::LocalDefId;
use rustc_middle::ty::{self, TypeckResults};

struct Hx<'a, 'tcx> {
    cx: &'a mut Cx<'tcx>,
    tr: &'tcx TypeckResults<'tcx>,
}

fn hid(id: hir::HirId) -> String {
    format!("{}.{}", id.owner.def_id.local_def_index.as_u32(), id.local_id.as_u32())
}

impl<'a, 'tcx> Hx<'a, 'tcx> {
    fn res(&mut self, res: Res) -> J {
        let tcx = self.cx.tcx;
        match res {
            Res::Local(id) => J::Obj(vec![
                ("local", J::s(tcx.hir_name(id).to_string())),
                ("id", J::s(hid(id))),
            ]),
            Res::Def(kind, def_id) => {
                let mut o = vec![
                    ("def", J::s(self.cx.key(def_id))),
                    ("dk", J::s(format!("{:?}", kind))),
                ];
                if let DefKind::Ctor(..) = kind {
                    // constructor: report variant / struct path
                    let parent = tcx.parent(def_id);
                    o.push(("ctor_of", J::s(self.cx.qpath(parent))));
                }
                J::Obj(o)
            }
            Res::SelfTyAlias { .. } | Res::SelfTyParam { .. } => J::Obj(vec![("selfty", J::Bool(true))]),
            Res::SelfCtor(_) => J::Obj(vec![("selfctor", J::Bool(true))]),
            Res::PrimTy(p) => J::Obj(vec![("prim", J::s(p.name_str()))]),
            other => J::Obj(vec![("other", J::s(format!("{:?}", other)))]),
        }
    }

    fn qpath(&mut self, q: &hir::QPath<'tcx>, id: hir::HirId) -> J {
        let res = self.tr.qpath_res(q, id);
        let mut r = self.res(res);
        let text = match q {
            hir::QPath::Resolved(_, p) => {
                p.segments.iter().map(|s| s.ident.to_string()).collect::<Vec<_>>().join("::")
            }
            hir::QPath::TypeRelative(_, seg) => format!("<_>::{}", seg.ident),
        };
        if let J::Obj(ref mut v) = r {
            v.push(("text", J::s(text)));
        }
        r
    }

    fn sp(&self, span: rustc_span::Span) -> J {
        self.cx.span_j(span)
    }

    fn pat(&mut self, p: &hir::Pat<'tcx>) -> J {
        let mut o: Vec<(&'static str, J)> = vec![];
        match &p.kind {
            hir::PatKind::Wild => o.push(("k", J::s("wild"))),
            hir::PatKind::Binding(mode, id, ident, sub) => {
                o.push(("k", J::s("bind")));
                o.push(("name", J::s(ident.to_string())));
                o.push(("id", J::s(hid(*id))));
                o.push(("mode", J::s(format!("{:?}", mode))));
                if let Some(s) = sub {
                    o.push(("sub", self.pat(s)));
                }
            }
            hir::PatKind::Struct(q, fields, _) => {
                o.push(("k", J::s("struct")));
                o.push(("path", self.qpath(q, p.hir_id)));
                let fs: Vec<J> = fields
                    .iter()
                    .map(|f| J::Obj(vec![("name", J::s(f.ident.to_string())), ("pat", self.pat(f.pat))]))
                    .collect();
                o.push(("fields", J::Arr(fs)));
            }
            hir::PatKind::TupleStruct(q, pats, _) => {
                o.push(("k", J::s("tuplestruct")));
                o.push(("path", self.qpath(q, p.hir_id)));
                o.push(("pats", J::Arr(pats.iter().map(|x| self.pat(x)).collect())));
            }
            hir::PatKind::Or(pats) => {
                o.push(("k", J::s("or")));
                o.push(("pats", J::Arr(pats.iter().map(|x| self.pat(x)).collect())));
            }
            hir::PatKind::Tuple(pats, _) => {
                o.push(("k", J::s("tuple")));
                o.push(("pats", J::Arr(pats.iter().map(|x| self.pat(x)).collect())));
            }
            hir::PatKind::Ref(inner, ..) | hir::PatKind::Box(inner) | hir::PatKind::Deref(inner) => {
                o.push(("k", J::s("ref")));
                o.push(("pat", self.pat(inner)));
            }
            hir::PatKind::Expr(pe) => {
                o.push(("k", J::s("expr")));
                match &pe.kind {
                    hir::PatExprKind::Lit { lit, negated } => {
                        o.push(("lit", self.lit(lit)));
                        o.push(("neg", J::Bool(*negated)));
                    }
                    hir::PatExprKind::Path(q) => {
                        o.push(("path", self.qpath(q, pe.hir_id)));
                    }
                    #[allow(unreachable_patterns)]
                    _ => o.push(("s", J::s("other"))),
                }
            }
            hir::PatKind::Range(..) => o.push(("k", J::s("range"))),
            hir::PatKind::Slice(..) => o.push(("k", J::s("slice"))),
            _ => o.push(("k", J::s("other"))),
        }
        o.push(("sp", self.sp(p.span)));
        J::Obj(o)
    }

    fn lit(&mut self, lit: &hir::Lit) -> J {
        use rustc_ast::LitKind;
        match &lit.node {
            LitKind::Str(s, _) => J::Obj(vec![("str", J::s(s.to_string()))]),
            LitKind::ByteStr(b, _) | LitKind::CStr(b, _) => {
                J::Obj(vec![("bytes", J::s(String::from_utf8_lossy(b.as_byte_str()).to_string()))])
            }
            LitKind::Byte(b) => J::Obj(vec![("int", J::UInt(*b as u128))]),
            LitKind::Char(c) => J::Obj(vec![("char", J::s(c.to_string()))]),
            LitKind::Int(v, _) => J::Obj(vec![("int", J::UInt(v.get()))]),
            LitKind::Float(s, _) => J::Obj(vec![("float", J::s(s.to_string()))]),
            LitKind::Bool(b) => J::Obj(vec![("bool", J::Bool(*b))]),
            LitKind::Err(_) => J::Null,
        }
    }

    fn block(&mut self, b: &hir::Block<'tcx>) -> J {
        let mut stmts = vec![];
        for s in b.stmts.iter() {
            match &s.kind {
                hir::StmtKind::Let(l) => {
                    let mut o: Vec<(&'static str, J)> = vec![("k", J::s("let"))];
                    o.push(("pat", self.pat(l.pat)));
                    if let Some(i) = l.init {
                        o.push(("init", self.expr(i)));
                    }
                    if let Some(e) = l.els {
                        o.push(("els", self.block(e)));
                    }
                    o.push(("sp", self.sp(s.span)));
                    stmts.push(J::Obj(o));
                }
                hir::StmtKind::Item(_) => {}
                hir::StmtKind::Expr(e) | hir::StmtKind::Semi(e) => {
                    stmts.push(J::Obj(vec![("k", J::s("expr")), ("e", self.expr(e))]));
                }
            }
        }
        let mut o: Vec<(&'static str, J)> = vec![("k", J::s("block")), ("stmts", J::Arr(stmts))];
        if let Some(e) = b.expr {
            o.push(("expr", self.expr(e)));
        }
        o.push(("id", J::s(hid(b.hir_id))));
        J::Obj(o)
    }

    fn expr(&mut self, e: &hir::Expr<'tcx>) -> J {
        let tcx = self.cx.tcx;
        let mut o: Vec<(&'static str, J)> = vec![];
        match &e.kind {
            hir::ExprKind::DropTemps(inner) | hir::ExprKind::Use(inner, _) => return self.expr(inner),
            hir::ExprKind::Call(f, args) => {
                o.push(("k", J::s("call")));
                if let hir::ExprKind::Path(q) = &f.kind {
                    o.push(("callee", self.qpath(q, f.hir_id)));
                } else {
                    o.push(("fn", self.expr(f)));
                }
                o.push(("args", J::Arr(args.iter().map(|a| self.expr(a)).collect())));
            }
            hir::ExprKind::MethodCall(seg, recv, args, _) => {
                o.push(("k", J::s("mcall")));
                o.push(("name", J::s(seg.ident.to_string())));
                if let Some(d) = self.tr.type_dependent_def_id(e.hir_id) {
                    o.push(("callee", J::s(self.cx.key(d))));
                    if let Some(t) = tcx.trait_of_assoc(d) {
                        o.push(("trait", J::s(self.cx.qpath(t))));
                    }
                }
                let rty = self.tr.expr_ty_adjusted(recv);
                o.push(("recv_ty", J::s(crate::trunc_pub(rty.to_string(), 200))));
                o.push(("recv", self.expr(recv)));
                o.push(("args", J::Arr(args.iter().map(|a| self.expr(a)).collect())));
            }
            hir::ExprKind::Tup(es) => {
                o.push(("k", J::s("tup")));
                o.push(("es", J::Arr(es.iter().map(|a| self.expr(a)).collect())));
            }
            hir::ExprKind::Array(es) => {
                o.push(("k", J::s("array")));
                o.push(("es", J::Arr(es.iter().map(|a| self.expr(a)).collect())));
            }
            hir::ExprKind::Binary(op, l, r) => {
                o.push(("k", J::s("binary")));
                o.push(("op", J::s(op.node.as_str())));
                o.push(("l", self.expr(l)));
                o.push(("r", self.expr(r)));
            }
            hir::ExprKind::Unary(op, x) => {
                o.push(("k", J::s("unary")));
                o.push(("op", J::s(op.as_str())));
                o.push(("e", self.expr(x)));
            }
            hir::ExprKind::Lit(l) => {
                o.push(("k", J::s("lit")));
                o.push(("v", self.lit(l)));
            }
            hir::ExprKind::Cast(x, _) | hir::ExprKind::Type(x, _) => {
                o.push(("k", J::s("cast")));
                o.push(("e", self.expr(x)));
            }
            hir::ExprKind::Let(l) => {
                o.push(("k", J::s("letexpr")));
                o.push(("pat", self.pat(l.pat)));
                o.push(("init", self.expr(l.init)));
            }
            hir::ExprKind::If(c, t, el) => {
                o.push(("k", J::s("if")));
                o.push(("cond", self.expr(c)));
                o.push(("then", self.expr(t)));
                if let Some(el) = el {
                    o.push(("else", self.expr(el)));
                }
            }
            hir::ExprKind::Loop(b, label, src, _) => {
                o.push(("k", J::s("loop")));
                o.push(("id", J::s(hid(e.hir_id))));
                o.push(("src", J::s(format!("{:?}", src))));
                if let Some(l) = label {
                    o.push(("label", J::s(l.ident.to_string())));
                }
                o.push(("body", self.block(b)));
            }
            hir::ExprKind::Match(scrut, arms, src) => {
                o.push(("k", J::s("match")));
                o.push(("src", J::s(format!("{:?}", src))));
                o.push(("scrut", self.expr(scrut)));
                let mut as_ = vec![];
                for a in arms.iter() {
                    let mut ao: Vec<(&'static str, J)> = vec![("pat", self.pat(a.pat))];
                    if let Some(g) = a.guard {
                        ao.push(("guard", self.expr(g)));
                    }
                    ao.push(("body", self.expr(a.body)));
                    as_.push(J::Obj(ao));
                }
                o.push(("arms", J::Arr(as_)));
            }
            hir::ExprKind::Closure(c) => {
                o.push(("k", J::s("closure")));
                o.push(("key", J::s(self.cx.key(c.def_id.to_def_id()))));
                o.push(("ckind", J::s(format!("{:?}", c.kind))));
                let body = tcx.hir_body(c.body);
                let params: Vec<J> = body.params.iter().map(|p| self.pat(p.pat)).collect();
                o.push(("params", J::Arr(params)));
                o.push(("body", self.expr(body.value)));
            }
            hir::ExprKind::Block(b, label) => {
                let mut bj = self.block(b);
                if let (J::Obj(ref mut v), Some(l)) = (&mut bj, label) {
                    v.push(("label", J::s(l.ident.to_string())));
                }
                if let J::Obj(ref mut v) = bj {
                    v.push(("ty", J::s(crate::trunc_pub(self.tr.expr_ty(e).to_string(), 160))));
                    v.push(("sp", self.sp(e.span)));
                    v.push(("eid", J::s(hid(e.hir_id))));
                }
                return bj;
            }
            hir::ExprKind::Assign(l, r, _) => {
                o.push(("k", J::s("assign")));
                o.push(("l", self.expr(l)));
                o.push(("r", self.expr(r)));
            }
            hir::ExprKind::AssignOp(op, l, r) => {
                o.push(("k", J::s("assignop")));
                o.push(("op", J::s(op.node.as_str())));
                o.push(("l", self.expr(l)));
                o.push(("r", self.expr(r)));
            }
            hir::ExprKind::Field(x, ident) => {
                o.push(("k", J::s("field")));
                o.push(("name", J::s(ident.to_string())));
                o.push(("e", self.expr(x)));
            }
            hir::ExprKind::Index(x, i, _) => {
                o.push(("k", J::s("index")));
                o.push(("e", self.expr(x)));
                o.push(("i", self.expr(i)));
            }
            hir::ExprKind::Path(q) => {
                o.push(("k", J::s("path")));
                o.push(("res", self.qpath(q, e.hir_id)));
            }
            hir::ExprKind::AddrOf(_, m, x) => {
                o.push(("k", J::s("addrof")));
                o.push(("mut", J::Bool(m.is_mut())));
                o.push(("e", self.expr(x)));
            }
            hir::ExprKind::Break(dest, x) => {
                o.push(("k", J::s("break")));
                o.push(("target", dest.target_id.map(|h| J::s(hid(h))).unwrap_or(J::Null)));
                if let Some(x) = x {
                    o.push(("e", self.expr(x)));
                }
            }
            hir::ExprKind::Continue(dest) => {
                o.push(("k", J::s("continue")));
                o.push(("target", dest.target_id.map(|h| J::s(hid(h))).unwrap_or(J::Null)));
            }
            hir::ExprKind::Ret(x) => {
                o.push(("k", J::s("ret")));
                if let Some(x) = x {
                    o.push(("e", self.expr(x)));
                }
            }
            hir::ExprKind::Struct(q, fields, tail) => {
                o.push(("k", J::s("struct")));
                o.push(("path", self.qpath(q, e.hir_id)));
                let fs: Vec<J> = fields
                    .iter()
                    .map(|f| J::Obj(vec![("name", J::s(f.ident.to_string())), ("e", self.expr(f.expr))]))
                    .collect();
                o.push(("fields", J::Arr(fs)));
                if let hir::StructTailExpr::Base(b) = tail {
                    o.push(("base", self.expr(b)));
                }
            }
            hir::ExprKind::Repeat(x, _) => {
                o.push(("k", J::s("repeat")));
                o.push(("e", self.expr(x)));
            }
            hir::ExprKind::Yield(x, src) => {
                o.push(("k", J::s("yield")));
                o.push(("src", J::s(format!("{:?}", src))));
                o.push(("e", self.expr(x)));
            }
            hir::ExprKind::ConstBlock(_) => o.push(("k", J::s("constblock"))),
            _ => {
                o.push(("k", J::s("other")));
            }
        }
        let ty = self.tr.expr_ty(e);
        o.push(("ty", J::s(crate::trunc_pub(ty.to_string(), 160))));
        if let ty::Adt(def, _) = ty.kind() {
            o.push(("ty_adt", J::s(self.cx.qpath(def.did()))));
        }
        o.push(("sp", self.sp(e.span)));
        o.push(("eid", J::s(hid(e.hir_id))));
        J::Obj(o)
    }
}

pub fn export_hir<'tcx>(cx: &mut Cx<'tcx>) -> J {
    let tcx = cx.tcx;
    let mut out = vec![];
    let owners: Vec<LocalDefId> = tcx.hir_body_owners().collect();
    for ldid in owners {
        let def_id = ldid.to_def_id();
        if !matches!(tcx.def_kind(def_id), DefKind::Fn | DefKind::AssocFn) {
            continue;
        }
        let tr = tcx.typeck(ldid);
        if tr.tainted_by_errors.is_some() {
            continue;
        }
        let Some(body) = tcx.hir_maybe_body_owned_by(ldid) else { continue };
        let key = cx.key(def_id);
        let path = cx.qpath(def_id);
        let sp = cx.span_j(tcx.def_span(def_id));
        let is_async = tcx.asyncness(def_id).is_async();
        let mut hx = Hx { cx, tr };
        let params: Vec<J> = body.params.iter().map(|p| hx.pat(p.pat)).collect();
        let e = hx.expr(body.value);
        out.push(J::Obj(vec![
            ("key", J::s(key)),
            ("path", J::s(path)),
            ("async", J::Bool(is_async)),
            ("sp", sp),
            ("params", J::Arr(params)),
            ("body", e),
        ]));
    }
    J::Arr(out)
}
