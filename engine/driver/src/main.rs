//! Fact extractor for the statime static-analysis checks (engine E1 of /verif/DESIGN.md).
//!
//! Used as RUSTC_WORKSPACE_WRAPPER under `cargo +nightly check`; for every workspace crate it
//! writes exactly one JSON file with the MIR (opt-level 0) of every body, ADT definitions,
//! impls, evaluated constants and a typed HIR tree of every body, into $VERIF_FACTS_DIR.
#![feature(rustc_private)]

extern crate rustc_abi;
extern crate rustc_ast;
extern crate rustc_data_structures;
extern crate rustc_driver;
extern crate rustc_hir;
extern crate rustc_interface;
extern crate rustc_middle;
extern crate rustc_session;
extern crate rustc_span;

mod hirx;
mod json;

use json::J;
use rustc_data_structures::fx::FxHashMap;
use rustc_driver::{Callbacks, Compilation};
use rustc_hir::def::DefKind;
use rustc_hir::def_id::{DefId, LocalDefId};
use rustc_interface::interface::Compiler;
use rustc_middle::mir::{
    AggregateKind, AssertKind, BasicBlock, Body, BorrowKind, Const, ConstValue, Operand, Place,
    PlaceTy, ProjectionElem, Rvalue, StatementKind, TerminatorKind, UnwindAction,
    VarDebugInfoContents,
};
use rustc_middle::ty::print::{with_no_trimmed_paths, with_no_visible_paths, with_resolve_crate_name};
use rustc_middle::ty::{self, GenericArgKind, GenericArgsRef, Instance, Ty, TyCtxt, TypingEnv};
use rustc_span::Span;

pub struct Cx<'tcx> {
    pub tcx: TyCtxt<'tcx>,
    pub types: Vec<J>,
    pub type_map: FxHashMap<Ty<'tcx>, usize>,
    pub cur_env: Option<TypingEnv<'tcx>>,
}

pub fn trunc_pub(s: String, n: usize) -> String {
    trunc(s, n)
}

fn trunc(mut s: String, n: usize) -> String {
    if s.len() > n {
        let mut k = n;
        while !s.is_char_boundary(k) {
            k -= 1;
        }
        s.truncate(k);
        s.push('…');
    }
    s
}

impl<'tcx> Cx<'tcx> {
    pub fn qpath(&self, def_id: DefId) -> String {
        self.tcx.def_path_str(def_id)
    }

    pub fn mod_path(&self, def_id: DefId) -> String {
        let tcx = self.tcx;
        let mut cur = def_id;
        loop {
            if matches!(tcx.def_kind(cur), DefKind::Mod) {
                if cur.is_crate_root() {
                    return tcx.crate_name(cur.krate).to_string();
                }
                return self.qpath(cur);
            }
            match tcx.opt_parent(cur) {
                Some(p) => cur = p,
                None => return tcx.crate_name(cur.krate).to_string(),
            }
        }
    }

    pub fn short_ty_name(&self, ty: Ty<'tcx>) -> String {
        match ty.kind() {
            ty::Adt(def, _) => self.tcx.item_name(def.did()).to_string(),
            ty::Ref(_, t, _) => format!("&{}", self.short_ty_name(*t)),
            ty::Slice(t) => format!("[{}]", self.short_ty_name(*t)),
            ty::Array(t, _) => format!("[{};N]", self.short_ty_name(*t)),
            _ => ty.to_string(),
        }
    }

    /// Stable, line-free key of a definition: `<module>::<SelfTy[ as Trait]>::name`, closures as
    /// `<parent key>::{closure#n}`.
    pub fn key(&self, def_id: DefId) -> String {
        let tcx = self.tcx;
        let kind = tcx.def_kind(def_id);
        if tcx.is_closure_like(def_id)
            || matches!(kind, DefKind::InlineConst | DefKind::AnonConst | DefKind::Closure)
        {
            let parent = tcx.parent(def_id);
            let dp = tcx.def_path(def_id);
            let last = dp.data.last().map(|d| d.as_sym(true).to_string()).unwrap_or_default();
            return format!("{}::{}", self.key(parent), last);
        }
        if matches!(kind, DefKind::Fn | DefKind::AssocFn | DefKind::AssocConst { .. } | DefKind::Const { .. }) {
            // nested fn items inside a body: parent is a fn
            if let Some(p) = tcx.opt_parent(def_id) {
                if matches!(tcx.def_kind(p), DefKind::Fn | DefKind::AssocFn | DefKind::Closure) {
                    return format!("{}::{}", self.key(p), tcx.item_name(def_id));
                }
            }
        }
        if let Some(impl_id) = tcx.impl_of_assoc(def_id) {
            let module = self.mod_path(impl_id);
            let self_ty = tcx.type_of(impl_id).instantiate_identity().skip_norm_wip();
            let short = self.short_ty_name(self_ty);
            let name = tcx.item_name(def_id);
            return match tcx.impl_opt_trait_ref(impl_id) {
                Some(tr) => {
                    let tr = tr.instantiate_identity().skip_norm_wip();
                    format!("{}::<{} as {}>::{}", module, short, self.trait_ref_str(tr), name)
                }
                None => format!("{}::<{}>::{}", module, short, name),
            };
        }
        self.qpath(def_id)
    }

    pub fn trait_ref_str(&self, tr: ty::TraitRef<'tcx>) -> String {
        // trait path + non-self type arguments (short names), e.g. core::ops::Add<Duration>
        let mut s = self.qpath(tr.def_id);
        let mut extra = vec![];
        for (i, a) in tr.args.iter().enumerate() {
            if i == 0 {
                continue;
            }
            if let GenericArgKind::Type(t) = a.kind() {
                extra.push(self.short_ty_name(t));
            }
        }
        if !extra.is_empty() {
            s.push('<');
            s.push_str(&extra.join(","));
            s.push('>');
        }
        s
    }

    pub fn ty_id(&mut self, ty: Ty<'tcx>) -> usize {
        if let Some(i) = self.type_map.get(&ty) {
            return *i;
        }
        let idx = self.types.len();
        self.types.push(J::Null);
        self.type_map.insert(ty, idx);
        let j = self.ty_desc(ty);
        self.types[idx] = j;
        idx
    }

    fn generic_args(&mut self, args: GenericArgsRef<'tcx>) -> J {
        let mut out = vec![];
        for a in args.iter() {
            match a.kind() {
                GenericArgKind::Type(t) => out.push(J::Obj(vec![("t", J::UInt(self.ty_id(t) as u128))])),
                GenericArgKind::Const(c) => {
                    let v = c.try_to_target_usize(self.tcx);
                    out.push(J::Obj(vec![
                        ("c", J::s(c.to_string())),
                        ("v", v.map(|v| J::UInt(v as u128)).unwrap_or(J::Null)),
                    ]))
                }
                GenericArgKind::Lifetime(_) => {}
            }
        }
        J::Arr(out)
    }

    fn ty_desc(&mut self, ty: Ty<'tcx>) -> J {
        let s = trunc(ty.to_string(), 400);
        let mut o: Vec<(&'static str, J)> = vec![("s", J::s(s))];
        match ty.kind() {
            ty::Bool | ty::Char | ty::Int(_) | ty::Uint(_) | ty::Float(_) | ty::Str | ty::Never => {
                o.push(("k", J::s("prim")));
            }
            ty::Adt(def, args) => {
                o.push(("k", J::s("adt")));
                o.push(("path", J::s(self.qpath(def.did()))));
                o.push(("name", J::s(self.tcx.item_name(def.did()).to_string())));
                o.push(("enum", J::Bool(def.is_enum())));
                let a = self.generic_args(args);
                o.push(("args", a));
            }
            ty::Ref(_, t, m) => {
                o.push(("k", J::s("ref")));
                o.push(("mut", J::Bool(m.is_mut())));
                o.push(("to", J::UInt(self.ty_id(*t) as u128)));
            }
            ty::RawPtr(t, m) => {
                o.push(("k", J::s("ptr")));
                o.push(("mut", J::Bool(m.is_mut())));
                o.push(("to", J::UInt(self.ty_id(*t) as u128)));
            }
            ty::Slice(t) => {
                o.push(("k", J::s("slice")));
                o.push(("of", J::UInt(self.ty_id(*t) as u128)));
            }
            ty::Array(t, len) => {
                o.push(("k", J::s("array")));
                o.push(("of", J::UInt(self.ty_id(*t) as u128)));
                match len.try_to_target_usize(self.tcx) {
                    Some(n) => o.push(("len", J::UInt(n as u128))),
                    None => o.push(("len", J::s(len.to_string()))),
                }
            }
            ty::Tuple(ts) => {
                o.push(("k", J::s("tuple")));
                let v: Vec<J> = ts.iter().map(|t| J::UInt(self.ty_id(t) as u128)).collect();
                o.push(("elems", J::Arr(v)));
            }
            ty::Closure(def, _) => {
                o.push(("k", J::s("closure")));
                o.push(("key", J::s(self.key(*def))));
            }
            ty::Coroutine(def, _) => {
                o.push(("k", J::s("coroutine")));
                o.push(("key", J::s(self.key(*def))));
            }
            ty::CoroutineClosure(def, _) => {
                o.push(("k", J::s("coroutine_closure")));
                o.push(("key", J::s(self.key(*def))));
            }
            ty::FnDef(def, args) => {
                o.push(("k", J::s("fndef")));
                o.push(("key", J::s(self.key(*def))));
                let a = self.generic_args(args);
                o.push(("args", a));
            }
            ty::FnPtr(..) => o.push(("k", J::s("fnptr"))),
            ty::Param(p) => {
                o.push(("k", J::s("param")));
                o.push(("name", J::s(p.name.to_string())));
            }
            ty::Dynamic(..) => o.push(("k", J::s("dyn"))),
            ty::Alias(..) => o.push(("k", J::s("alias"))),
            _ => o.push(("k", J::s("other"))),
        }
        J::Obj(o)
    }

    pub fn span_j(&self, span: Span) -> J {
        // [file, line, col, end_line, from_expansion, [macro names], callsite_line]
        let sm = self.tcx.sess.source_map();
        let root = span.source_callsite();
        let lo = sm.lookup_char_pos(root.lo());
        let hi = sm.lookup_char_pos(root.hi());
        let mut macros = vec![];
        if span.from_expansion() {
            for e in span.macro_backtrace().take(4) {
                macros.push(J::s(e.kind.descr()));
            }
        }
        let file = match &lo.file.name {
            rustc_span::FileName::Real(r) => match r.local_path() {
                Some(p) => p.display().to_string(),
                None => format!("{:?}", r),
            },
            other => format!("{:?}", other),
        };
        J::Arr(vec![
            J::s(file),
            J::UInt(lo.line as u128),
            J::UInt(lo.col.0 as u128 + 1),
            J::UInt(hi.line as u128),
            J::Arr(macros),
        ])
    }

    fn scalar_j(&self, ty: Ty<'tcx>, si: ty::ScalarInt) -> J {
        let size = si.size();
        match ty.kind() {
            ty::Bool => J::Bool(si.try_to_bool().unwrap_or(false)),
            ty::Int(_) => J::Int(si.to_int(size)),
            ty::Uint(_) | ty::Char => J::UInt(si.to_uint(size)),
            ty::Float(ty::FloatTy::F64) => J::Float(f64::from_bits(si.to_uint(size) as u64)),
            ty::Float(ty::FloatTy::F32) => J::Float(f32::from_bits(si.to_uint(size) as u32) as f64),
            _ => {
                if size.bytes() == 0 {
                    J::Null
                } else {
                    J::UInt(si.to_uint(size))
                }
            }
        }
    }

    pub fn callee(&mut self, def_id: DefId, args: GenericArgsRef<'tcx>) -> J {
        let tcx = self.tcx;
        let mut o: Vec<(&'static str, J)> = vec![];
        o.push(("key", J::s(self.key(def_id))));
        o.push(("path", J::s(self.qpath(def_id))));
        o.push(("name", J::s(tcx.opt_item_name(def_id).map(|s| s.to_string()).unwrap_or_default())));
        o.push(("crate", J::s(tcx.crate_name(def_id.krate).to_string())));
        if let Some(tr) = tcx.trait_of_assoc(def_id) {
            o.push(("trait", J::s(self.qpath(tr))));
            if args.len() > 0 {
                if let Some(t) = args.get(0).and_then(|a| a.as_type()) {
                    o.push(("self_ty", J::UInt(self.ty_id(t) as u128)));
                }
            }
        }
        let ga = self.generic_args(args);
        o.push(("targs", ga));
        if let Some(env) = self.cur_env {
            let ok = std::panic::catch_unwind(std::panic::AssertUnwindSafe(|| {
                Instance::try_resolve(tcx, env, def_id, args)
            }));
            if let Ok(Ok(Some(inst))) = ok {
                let rid = inst.def_id();
                if rid != def_id {
                    o.push(("resolved", J::s(self.key(rid))));
                }
                let kind = match inst.def {
                    ty::InstanceKind::Item(_) => "item",
                    ty::InstanceKind::Intrinsic(_) => "intrinsic",
                    ty::InstanceKind::Virtual(..) => "virtual",
                    ty::InstanceKind::ClosureOnceShim { .. } => "closure_once_shim",
                    ty::InstanceKind::FnPtrShim(..) => "fnptr_shim",
                    ty::InstanceKind::DropGlue(..) => "drop_glue",
                    ty::InstanceKind::CloneShim(..) => "clone_shim",
                    _ => "other",
                };
                o.push(("rkind", J::s(kind)));
                // closure call through Fn*/FnOnce: report the closure key
                if let Some(t) = args.get(0).and_then(|a| a.as_type()) {
                    if let ty::Closure(cdef, _) = t.kind() {
                        o.push(("closure", J::s(self.key(*cdef))));
                    }
                }
            }
        }
        J::Obj(o)
    }

    fn const_j(&mut self, c: &Const<'tcx>) -> J {
        let tcx = self.tcx;
        let ty = c.ty();
        let mut o: Vec<(&'static str, J)> = vec![("k", J::s("const"))];
        o.push(("ty", J::UInt(self.ty_id(ty) as u128)));
        if let ty::FnDef(def, args) = ty.kind() {
            let cal = self.callee(*def, args);
            o.push(("fn", cal));
            return J::Obj(o);
        }
        match c {
            Const::Unevaluated(uv, _) => {
                o.push(("def", J::s(self.key(uv.def))));
                if let Some(p) = uv.promoted {
                    o.push(("promoted", J::UInt(p.as_u32() as u128)));
                }
            }
            Const::Ty(_, ct) => {
                if let ty::ConstKind::Param(p) = ct.kind() {
                    o.push(("param", J::s(p.name.to_string())));
                }
                if let ty::ConstKind::Unevaluated(uv) = ct.kind() {
                    o.push(("def", J::s(self.key(uv.def))));
                }
            }
            Const::Val(..) => {}
        }
        let mut val = None;
        let is_scalar_ty = matches!(
            ty.kind(),
            ty::Bool | ty::Int(_) | ty::Uint(_) | ty::Char | ty::Float(_)
        );
        if is_scalar_ty {
            if let Some(si) = c.try_to_scalar_int() {
                val = Some(si);
            } else if let Some(env) = self.cur_env {
                let promoted = matches!(c, Const::Unevaluated(uv, _) if uv.promoted.is_some());
                if !promoted {
                    let r = std::panic::catch_unwind(std::panic::AssertUnwindSafe(|| {
                        c.try_eval_scalar_int(tcx, env)
                    }));
                    if let Ok(Some(si)) = r {
                        val = Some(si);
                    }
                }
            }
        }
        if let Some(si) = val {
            o.push(("v", self.scalar_j(ty, si)));
        } else if let Const::Val(ConstValue::ZeroSized, _) = c {
            o.push(("zst", J::Bool(true)));
        }
        o.push(("s", J::s(trunc(c.to_string(), 200))));
        J::Obj(o)
    }

    fn field_name(&self, pty: PlaceTy<'tcx>, f: rustc_abi::FieldIdx) -> String {
        match pty.ty.kind() {
            ty::Adt(def, _) => {
                let v = pty.variant_index.unwrap_or(rustc_abi::FIRST_VARIANT);
                if def.is_enum() && pty.variant_index.is_none() {
                    return format!("{}", f.as_u32());
                }
                def.variant(v)
                    .fields
                    .get(f)
                    .map(|fd| fd.name.to_string())
                    .unwrap_or_else(|| format!("{}", f.as_u32()))
            }
            ty::Closure(def, _) | ty::Coroutine(def, _) | ty::CoroutineClosure(def, _) => {
                let names = self.tcx.closure_saved_names_of_captured_variables(*def);
                names
                    .get(f)
                    .map(|s| s.to_string())
                    .unwrap_or_else(|| format!("{}", f.as_u32()))
            }
            _ => format!("{}", f.as_u32()),
        }
    }

    pub fn place(&mut self, body: &Body<'tcx>, p: &Place<'tcx>) -> J {
        let tcx = self.tcx;
        let mut pty = PlaceTy::from_ty(body.local_decls[p.local].ty);
        let mut proj = vec![];
        for elem in p.projection.iter() {
            let e = match elem {
                ProjectionElem::Deref => J::Arr(vec![J::s("deref")]),
                ProjectionElem::Field(f, fty) => {
                    let name = self.field_name(pty, f);
                    J::Arr(vec![
                        J::s("field"),
                        J::UInt(f.as_u32() as u128),
                        J::s(name),
                        J::UInt(self.ty_id(fty) as u128),
                    ])
                }
                ProjectionElem::Index(l) => J::Arr(vec![J::s("index"), J::UInt(l.as_u32() as u128)]),
                ProjectionElem::ConstantIndex { offset, min_length, from_end } => J::Arr(vec![
                    J::s("cidx"),
                    J::UInt(offset as u128),
                    J::UInt(min_length as u128),
                    J::Bool(from_end),
                ]),
                ProjectionElem::Subslice { from, to, from_end } => J::Arr(vec![
                    J::s("subslice"),
                    J::UInt(from as u128),
                    J::UInt(to as u128),
                    J::Bool(from_end),
                ]),
                ProjectionElem::Downcast(name, vidx) => {
                    let n = match name {
                        Some(n) => n.to_string(),
                        None => match pty.ty.kind() {
                            ty::Adt(def, _) => def.variant(vidx).name.to_string(),
                            _ => format!("{}", vidx.as_u32()),
                        },
                    };
                    J::Arr(vec![J::s("downcast"), J::s(n), J::UInt(vidx.as_u32() as u128)])
                }
                _ => J::Arr(vec![J::s("other"), J::s(format!("{:?}", elem))]),
            };
            proj.push(e);
            pty = pty.projection_ty(tcx, elem);
        }
        J::Obj(vec![
            ("l", J::UInt(p.local.as_u32() as u128)),
            ("proj", J::Arr(proj)),
            ("ty", J::UInt(self.ty_id(pty.ty) as u128)),
        ])
    }

    fn operand(&mut self, body: &Body<'tcx>, op: &Operand<'tcx>) -> J {
        match op {
            Operand::Copy(p) => J::Obj(vec![("k", J::s("copy")), ("p", self.place(body, p))]),
            Operand::Move(p) => J::Obj(vec![("k", J::s("move")), ("p", self.place(body, p))]),
            Operand::Constant(c) => self.const_j(&c.const_),
            other => J::Obj(vec![("k", J::s("other")), ("s", J::s(format!("{:?}", other)))]),
        }
    }

    fn rvalue(&mut self, body: &Body<'tcx>, rv: &Rvalue<'tcx>) -> J {
        match rv {
            Rvalue::Use(op, ..) => J::Obj(vec![("k", J::s("use")), ("op", self.operand(body, op))]),
            Rvalue::Repeat(op, n) => J::Obj(vec![
                ("k", J::s("repeat")),
                ("op", self.operand(body, op)),
                (
                    "n",
                    n.try_to_target_usize(self.tcx)
                        .map(|v| J::UInt(v as u128))
                        .unwrap_or_else(|| J::s(n.to_string())),
                ),
            ]),
            Rvalue::Ref(_, bk, p) => {
                let (m, kind) = match bk {
                    BorrowKind::Shared => (false, "shared"),
                    BorrowKind::Fake(_) => (false, "fake"),
                    BorrowKind::Mut { .. } => (true, "mut"),
                };
                J::Obj(vec![
                    ("k", J::s("ref")),
                    ("mut", J::Bool(m)),
                    ("bk", J::s(kind)),
                    ("p", self.place(body, p)),
                ])
            }
            Rvalue::RawPtr(kind, p) => J::Obj(vec![
                ("k", J::s("rawptr")),
                ("kind", J::s(format!("{:?}", kind))),
                ("p", self.place(body, p)),
            ]),
            Rvalue::Cast(kind, op, ty) => J::Obj(vec![
                ("k", J::s("cast")),
                ("ck", J::s(format!("{:?}", kind))),
                ("op", self.operand(body, op)),
                ("ty", J::UInt(self.ty_id(*ty) as u128)),
            ]),
            Rvalue::BinaryOp(op, ab) => J::Obj(vec![
                ("k", J::s("bin")),
                ("op", J::s(format!("{:?}", op))),
                ("a", self.operand(body, &ab.0)),
                ("b", self.operand(body, &ab.1)),
            ]),
            Rvalue::UnaryOp(op, a) => J::Obj(vec![
                ("k", J::s("un")),
                ("op", J::s(format!("{:?}", op))),
                ("a", self.operand(body, a)),
            ]),
            Rvalue::Discriminant(p) => J::Obj(vec![("k", J::s("discr")), ("p", self.place(body, p))]),
            Rvalue::Aggregate(kind, ops) => {
                let mut o: Vec<(&'static str, J)> = vec![("k", J::s("agg"))];
                match &**kind {
                    AggregateKind::Array(t) => {
                        o.push(("ak", J::s("array")));
                        o.push(("of", J::UInt(self.ty_id(*t) as u128)));
                    }
                    AggregateKind::Tuple => o.push(("ak", J::s("tuple"))),
                    AggregateKind::Adt(def, vidx, args, _, active) => {
                        let adt = self.tcx.adt_def(*def);
                        let variant = adt.variant(*vidx);
                        o.push(("ak", J::s("adt")));
                        o.push(("path", J::s(self.qpath(*def))));
                        o.push(("name", J::s(self.tcx.item_name(*def).to_string())));
                        o.push(("variant", J::s(variant.name.to_string())));
                        o.push(("vidx", J::UInt(vidx.as_u32() as u128)));
                        let names: Vec<J> = match active {
                            Some(f) => vec![J::s(variant.fields[*f].name.to_string())],
                            None => variant.fields.iter().map(|f| J::s(f.name.to_string())).collect(),
                        };
                        o.push(("fields", J::Arr(names)));
                        let ga = self.generic_args(args);
                        o.push(("targs", ga));
                    }
                    AggregateKind::Closure(def, _) => {
                        o.push(("ak", J::s("closure")));
                        o.push(("key", J::s(self.key(*def))));
                        let names = self.tcx.closure_saved_names_of_captured_variables(*def);
                        o.push(("fields", J::Arr(names.iter().map(|s| J::s(s.to_string())).collect())));
                    }
                    AggregateKind::Coroutine(def, _) => {
                        o.push(("ak", J::s("coroutine")));
                        o.push(("key", J::s(self.key(*def))));
                    }
                    AggregateKind::CoroutineClosure(def, _) => {
                        o.push(("ak", J::s("coroutine_closure")));
                        o.push(("key", J::s(self.key(*def))));
                    }
                    AggregateKind::RawPtr(..) => o.push(("ak", J::s("rawptr"))),
                }
                let v: Vec<J> = ops.iter().map(|op| self.operand(body, op)).collect();
                o.push(("ops", J::Arr(v)));
                J::Obj(o)
            }
            Rvalue::CopyForDeref(p) => J::Obj(vec![
                ("k", J::s("use")),
                ("op", J::Obj(vec![("k", J::s("copy")), ("p", self.place(body, p))])),
                ("for_deref", J::Bool(true)),
            ]),
            other => J::Obj(vec![("k", J::s("other")), ("s", J::s(trunc(format!("{:?}", other), 200)))]),
        }
    }

    fn bb(b: BasicBlock) -> J {
        J::UInt(b.as_u32() as u128)
    }

    fn unwind(u: &UnwindAction) -> J {
        match u {
            UnwindAction::Cleanup(b) => Self::bb(*b),
            _ => J::Null,
        }
    }

    fn body_blocks(&mut self, body: &Body<'tcx>) -> J {
        let mut blocks = vec![];
        for (_bb, data) in body.basic_blocks.iter_enumerated() {
            let mut stmts = vec![];
            for st in data.statements.iter() {
                let sp = st.source_info.span;
                match &st.kind {
                    StatementKind::Assign(b) => {
                        let (p, rv) = &**b;
                        stmts.push(J::Obj(vec![
                            ("k", J::s("assign")),
                            ("p", self.place(body, p)),
                            ("r", self.rvalue(body, rv)),
                            ("sp", self.span_j(sp)),
                        ]));
                    }
                    StatementKind::SetDiscriminant { place, variant_index } => {
                        stmts.push(J::Obj(vec![
                            ("k", J::s("setdiscr")),
                            ("p", self.place(body, place)),
                            ("vidx", J::UInt(variant_index.as_u32() as u128)),
                            ("sp", self.span_j(sp)),
                        ]));
                    }
                    StatementKind::StorageLive(_)
                    | StatementKind::StorageDead(_)
                    | StatementKind::Nop
                    | StatementKind::FakeRead(..)
                    | StatementKind::PlaceMention(..)
                    | StatementKind::AscribeUserType(..)
                    | StatementKind::Coverage(..)
                    | StatementKind::ConstEvalCounter
                    | StatementKind::BackwardIncompatibleDropHint { .. } => {}
                    other => {
                        stmts.push(J::Obj(vec![
                            ("k", J::s("other")),
                            ("s", J::s(trunc(format!("{:?}", other), 200))),
                            ("sp", self.span_j(sp)),
                        ]));
                    }
                }
            }
            let term = data.terminator();
            let tsp = self.span_j(term.source_info.span);
            let mut t: Vec<(&'static str, J)> = vec![];
            match &term.kind {
                TerminatorKind::Goto { target } => {
                    t.push(("k", J::s("goto")));
                    t.push(("target", Self::bb(*target)));
                }
                TerminatorKind::SwitchInt { discr, targets } => {
                    t.push(("k", J::s("switch")));
                    let dty = discr.ty(body, self.tcx);
                    t.push(("discr", self.operand(body, discr)));
                    t.push(("dty", J::UInt(self.ty_id(dty) as u128)));
                    let mut vs = vec![];
                    for (v, b) in targets.iter() {
                        vs.push(J::Arr(vec![J::UInt(v), Self::bb(b)]));
                    }
                    t.push(("targets", J::Arr(vs)));
                    t.push(("otherwise", Self::bb(targets.otherwise())));
                }
                TerminatorKind::Return => t.push(("k", J::s("return"))),
                TerminatorKind::Unreachable => t.push(("k", J::s("unreachable"))),
                TerminatorKind::UnwindResume => t.push(("k", J::s("resume"))),
                TerminatorKind::UnwindTerminate(_) => t.push(("k", J::s("terminate"))),
                TerminatorKind::Drop { place, target, unwind, .. } => {
                    t.push(("k", J::s("drop")));
                    t.push(("p", self.place(body, place)));
                    t.push(("target", Self::bb(*target)));
                    t.push(("unwind", Self::unwind(unwind)));
                }
                TerminatorKind::Call { func, args, destination, target, unwind, call_source, fn_span } => {
                    t.push(("k", J::s("call")));
                    t.push(("func", self.operand(body, func)));
                    let a: Vec<J> = args.iter().map(|a| self.operand(body, &a.node)).collect();
                    t.push(("args", J::Arr(a)));
                    t.push(("dest", self.place(body, destination)));
                    t.push(("target", target.map(Self::bb).unwrap_or(J::Null)));
                    t.push(("unwind", Self::unwind(unwind)));
                    t.push(("src", J::s(format!("{:?}", call_source))));
                    t.push(("fn_sp", self.span_j(*fn_span)));
                }
                TerminatorKind::TailCall { func, args, .. } => {
                    t.push(("k", J::s("tailcall")));
                    t.push(("func", self.operand(body, func)));
                    let a: Vec<J> = args.iter().map(|a| self.operand(body, &a.node)).collect();
                    t.push(("args", J::Arr(a)));
                }
                TerminatorKind::Assert { cond, expected, msg, target, unwind } => {
                    t.push(("k", J::s("assert")));
                    t.push(("cond", self.operand(body, cond)));
                    t.push(("expected", J::Bool(*expected)));
                    t.push(("target", Self::bb(*target)));
                    t.push(("unwind", Self::unwind(unwind)));
                    let m = match &**msg {
                        AssertKind::BoundsCheck { len, index } => J::Obj(vec![
                            ("kind", J::s("BoundsCheck")),
                            ("len", self.operand(body, len)),
                            ("index", self.operand(body, index)),
                        ]),
                        AssertKind::Overflow(op, a, b) => J::Obj(vec![
                            ("kind", J::s("Overflow")),
                            ("op", J::s(format!("{:?}", op))),
                            ("a", self.operand(body, a)),
                            ("b", self.operand(body, b)),
                        ]),
                        AssertKind::OverflowNeg(a) => {
                            J::Obj(vec![("kind", J::s("OverflowNeg")), ("a", self.operand(body, a))])
                        }
                        AssertKind::DivisionByZero(a) => {
                            J::Obj(vec![("kind", J::s("DivisionByZero")), ("a", self.operand(body, a))])
                        }
                        AssertKind::RemainderByZero(a) => {
                            J::Obj(vec![("kind", J::s("RemainderByZero")), ("a", self.operand(body, a))])
                        }
                        other => J::Obj(vec![("kind", J::s(trunc(format!("{:?}", other), 80)))]),
                    };
                    t.push(("msg", m));
                }
                TerminatorKind::Yield { value, resume, drop, .. } => {
                    t.push(("k", J::s("yield")));
                    t.push(("value", self.operand(body, value)));
                    t.push(("target", Self::bb(*resume)));
                    t.push(("drop", drop.map(Self::bb).unwrap_or(J::Null)));
                }
                TerminatorKind::CoroutineDrop => t.push(("k", J::s("coroutine_drop"))),
                TerminatorKind::FalseEdge { real_target, .. } => {
                    t.push(("k", J::s("goto")));
                    t.push(("target", Self::bb(*real_target)));
                }
                TerminatorKind::FalseUnwind { real_target, .. } => {
                    t.push(("k", J::s("goto")));
                    t.push(("target", Self::bb(*real_target)));
                }
                TerminatorKind::InlineAsm { .. } => t.push(("k", J::s("asm"))),
            }
            t.push(("sp", tsp));
            blocks.push(J::Obj(vec![
                ("stmts", J::Arr(stmts)),
                ("term", J::Obj(t)),
                ("cleanup", J::Bool(data.is_cleanup)),
            ]));
        }
        J::Arr(blocks)
    }

    fn locals_j(&mut self, body: &Body<'tcx>) -> J {
        let mut names: FxHashMap<u32, String> = FxHashMap::default();
        for vdi in body.var_debug_info.iter() {
            if let VarDebugInfoContents::Place(p) = &vdi.value {
                if p.projection.is_empty() {
                    names.entry(p.local.as_u32()).or_insert_with(|| vdi.name.to_string());
                }
            }
        }
        let mut out = vec![];
        for (l, d) in body.local_decls.iter_enumerated() {
            out.push(J::Obj(vec![
                ("ty", J::UInt(self.ty_id(d.ty) as u128)),
                ("name", J::opt_s(names.get(&l.as_u32()).cloned())),
                ]));
        }
        J::Arr(out)
    }

    fn def_header(&mut self, def_id: DefId) -> Vec<(&'static str, J)> {
        let tcx = self.tcx;
        let mut o: Vec<(&'static str, J)> = vec![];
        o.push(("key", J::s(self.key(def_id))));
        o.push(("path", J::s(self.qpath(def_id))));
        o.push(("name", J::s(tcx.opt_item_name(def_id).map(|s| s.to_string()).unwrap_or_default())));
        o.push(("module", J::s(self.mod_path(def_id))));
        o.push(("def_kind", J::s(format!("{:?}", tcx.def_kind(def_id)))));
        if let Some(impl_id) = tcx.impl_of_assoc(def_id) {
            let self_ty = tcx.type_of(impl_id).instantiate_identity().skip_norm_wip();
            o.push(("self_ty", J::UInt(self.ty_id(self_ty) as u128)));
            o.push(("self_name", J::s(self.short_ty_name(self_ty))));
            if let Some(tr) = tcx.impl_opt_trait_ref(impl_id) {
                let tr = tr.instantiate_identity().skip_norm_wip();
                o.push(("trait", J::s(self.qpath(tr.def_id))));
                o.push(("trait_ref", J::s(self.trait_ref_str(tr))));
            }
        } else if let Some(tr) = tcx.trait_of_assoc(def_id) {
            o.push(("trait_decl", J::s(self.qpath(tr))));
        }
        o
    }

    fn export_body(&mut self, ldid: LocalDefId) -> Option<J> {
        let tcx = self.tcx;
        let def_id = ldid.to_def_id();
        let kind = tcx.def_kind(def_id);
        let is_const_item = matches!(kind, DefKind::Const { .. } | DefKind::AssocConst { .. });
        if is_const_item {
            // a trait's associated const without a default has no body
            let has_body = tcx.hir_maybe_body_owned_by(ldid).is_some();
            if !has_body {
                return None;
            }
        } else if !matches!(kind, DefKind::Fn | DefKind::AssocFn | DefKind::Closure | DefKind::SyntheticCoroutineBody) {
            return None;
        }
        self.cur_env = Some(TypingEnv::post_analysis(tcx, def_id));
        let body: &Body<'tcx> = if is_const_item { tcx.mir_for_ctfe(def_id) } else { tcx.optimized_mir(def_id) };
        let mut o = self.def_header(def_id);
        let is_closure = tcx.is_closure_like(def_id);
        o.push(("closure", J::Bool(is_closure)));
        o.push(("const_item", J::Bool(is_const_item)));
        o.push(("coroutine", J::Bool(tcx.is_coroutine(def_id))));
        if is_closure {
            o.push(("parent", J::s(self.key(tcx.parent(def_id)))));
        }
        if matches!(kind, DefKind::Fn | DefKind::AssocFn) {
            o.push(("pub", J::Bool(tcx.visibility(def_id).is_public())));
            o.push(("asyncness", J::Bool(tcx.asyncness(def_id).is_async())));
        }
        let ev = tcx.effective_visibilities(());
        o.push(("reachable", J::Bool(ev.is_reachable(ldid))));
        o.push(("exported", J::Bool(ev.is_exported(ldid))));
        o.push(("sp", self.span_j(body.span)));
        o.push(("argc", J::UInt(body.arg_count as u128)));
        let generics = tcx.generics_of(def_id);
        let mut gnames = vec![];
        let mut g = Some(generics);
        while let Some(gg) = g {
            for p in gg.own_params.iter() {
                gnames.push(J::s(p.name.to_string()));
            }
            g = gg.parent.map(|p| tcx.generics_of(p));
        }
        o.push(("generics", J::Arr(gnames)));
        o.push(("locals", self.locals_j(body)));
        o.push(("blocks", self.body_blocks(body)));
        // promoted constants of this body
        let mut proms = vec![];
        if !tcx.is_coroutine(def_id) {
            let promoted = tcx.promoted_mir(def_id);
            for (idx, pb) in promoted.iter_enumerated() {
                proms.push(J::Obj(vec![
                    ("idx", J::UInt(idx.as_u32() as u128)),
                    ("locals", self.locals_j(pb)),
                    ("blocks", self.body_blocks(pb)),
                ]));
            }
        }
        o.push(("promoted", J::Arr(proms)));
        self.cur_env = None;
        Some(J::Obj(o))
    }

    fn export_adts_impls_consts(&mut self) -> (J, J, J, J) {
        let tcx = self.tcx;
        let mut adts = vec![];
        let mut impls = vec![];
        let mut consts = vec![];
        let mut traits = vec![];
        let items = tcx.hir_crate_items(());
        for ldid in items.definitions() {
            let def_id = ldid.to_def_id();
            match tcx.def_kind(def_id) {
                DefKind::Struct | DefKind::Enum | DefKind::Union => {
                    let adt = tcx.adt_def(def_id);
                    let mut variants = vec![];
                    for (vidx, v) in adt.variants().iter_enumerated() {
                        let discr = if adt.is_enum() {
                            let d = adt.discriminant_for_variant(tcx, vidx);
                            J::UInt(d.val)
                        } else {
                            J::Null
                        };
                        let mut fields = vec![];
                        for f in v.fields.iter() {
                            let fty = tcx.type_of(f.did).instantiate_identity().skip_norm_wip();
                            fields.push(J::Obj(vec![
                                ("name", J::s(f.name.to_string())),
                                ("ty", J::UInt(self.ty_id(fty) as u128)),
                                ("pub", J::Bool(f.vis.is_public())),
                            ]));
                        }
                        variants.push(J::Obj(vec![
                            ("name", J::s(v.name.to_string())),
                            ("idx", J::UInt(vidx.as_u32() as u128)),
                            ("discr", discr),
                            ("fields", J::Arr(fields)),
                        ]));
                    }
                    adts.push(J::Obj(vec![
                        ("path", J::s(self.qpath(def_id))),
                        ("name", J::s(tcx.item_name(def_id).to_string())),
                        ("enum", J::Bool(adt.is_enum())),
                        ("pub", J::Bool(tcx.visibility(def_id).is_public())),
                        ("variants", J::Arr(variants)),
                        ("sp", self.span_j(tcx.def_span(def_id))),
                    ]));
                }
                DefKind::Impl { .. } => {
                    let self_ty = tcx.type_of(def_id).instantiate_identity().skip_norm_wip();
                    let mut o: Vec<(&'static str, J)> = vec![];
                    o.push(("self_ty", J::UInt(self.ty_id(self_ty) as u128)));
                    o.push(("self_name", J::s(self.short_ty_name(self_ty))));
                    o.push(("module", J::s(self.mod_path(def_id))));
                    if let Some(tr) = tcx.impl_opt_trait_ref(def_id) {
                        let tr = tr.instantiate_identity().skip_norm_wip();
                        o.push(("trait", J::s(self.qpath(tr.def_id))));
                        o.push(("trait_ref", J::s(self.trait_ref_str(tr))));
                    }
                    let mut methods = vec![];
                    for item in tcx.associated_items(def_id).in_definition_order() {
                        if matches!(item.kind, ty::AssocKind::Fn { .. }) {
                            let mut m: Vec<(&'static str, J)> = vec![];
                            m.push(("name", J::s(item.name().to_string())));
                            m.push(("key", J::s(self.key(item.def_id))));
                            if let Some(ti) = item.trait_item_def_id() {
                                m.push(("trait_item", J::s(self.key(ti))));
                            }
                            methods.push(J::Obj(m));
                        }
                    }
                    o.push(("methods", J::Arr(methods)));
                    o.push(("sp", self.span_j(tcx.def_span(def_id))));
                    impls.push(J::Obj(o));
                }
                DefKind::Trait => {
                    let mut methods = vec![];
                    for item in tcx.associated_items(def_id).in_definition_order() {
                        if matches!(item.kind, ty::AssocKind::Fn { .. }) {
                            methods.push(J::Obj(vec![
                                ("name", J::s(item.name().to_string())),
                                ("key", J::s(self.key(item.def_id))),
                                ("has_default", J::Bool(item.defaultness(tcx).has_value())),
                            ]));
                        }
                    }
                    traits.push(J::Obj(vec![
                        ("path", J::s(self.qpath(def_id))),
                        ("methods", J::Arr(methods)),
                    ]));
                }
                DefKind::Const { .. } | DefKind::AssocConst { .. } | DefKind::Static { .. } => {
                    let ty = tcx.type_of(def_id).instantiate_identity().skip_norm_wip();
                    let mut o: Vec<(&'static str, J)> = vec![];
                    o.push(("key", J::s(self.key(def_id))));
                    o.push(("path", J::s(self.qpath(def_id))));
                    o.push(("name", J::s(tcx.item_name(def_id).to_string())));
                    o.push(("ty", J::UInt(self.ty_id(ty) as u128)));
                    let is_scalar_ty = matches!(
                        ty.kind(),
                        ty::Bool | ty::Int(_) | ty::Uint(_) | ty::Char | ty::Float(_)
                    );
                    let generic = tcx.generics_of(def_id).count() > 0;
                    let has_body = !matches!(tcx.def_kind(def_id), DefKind::AssocConst { .. })
                        || tcx.impl_of_assoc(def_id).is_some();
                    if is_scalar_ty && !generic && has_body {
                        let r = std::panic::catch_unwind(std::panic::AssertUnwindSafe(|| {
                            tcx.const_eval_poly(def_id)
                        }));
                        if let Ok(Ok(cv)) = r {
                            if let Some(si) = cv.try_to_scalar_int() {
                                o.push(("v", self.scalar_j(ty, si)));
                            }
                        }
                    }
                    o.push(("sp", self.span_j(tcx.def_span(def_id))));
                    consts.push(J::Obj(o));
                }
                _ => {}
            }
        }
        (J::Arr(adts), J::Arr(impls), J::Arr(consts), J::Arr(traits))
    }
}

fn export<'tcx>(tcx: TyCtxt<'tcx>) {
    let out_dir = match std::env::var("VERIF_FACTS_DIR") {
        Ok(d) => d,
        Err(_) => return,
    };
    let crate_name = tcx.crate_name(rustc_hir::def_id::LOCAL_CRATE).to_string();
    if crate_name.starts_with("build_script") {
        return;
    }
    let crate_types: Vec<String> = tcx.crate_types().iter().map(|t| format!("{:?}", t)).collect();
    let is_test = tcx.sess.opts.test;
    let mut cx = Cx { tcx, types: vec![], type_map: FxHashMap::default(), cur_env: None };

    let mut bodies = vec![];
    let mut keys: Vec<LocalDefId> = tcx.mir_keys(()).iter().copied().collect();
    keys.sort_by_key(|k| tcx.def_span(k.to_def_id()).lo());
    for ldid in keys {
        if let Some(b) = cx.export_body(ldid) {
            bodies.push(b);
        }
    }
    let (adts, impls, consts, traits) = cx.export_adts_impls_consts();
    let hir = hirx::export_hir(&mut cx);
    let features: Vec<J> = tcx
        .sess
        .opts
        .cg
        .target_feature
        .split(',')
        .filter(|s| !s.is_empty())
        .map(|s| J::s(s))
        .collect();
    let mut cfgs: Vec<String> = tcx
        .sess
        .config
        .iter()
        .filter_map(|(k, v)| {
            if k.as_str() == "feature" {
                v.map(|v| v.to_string())
            } else {
                None
            }
        })
        .collect();
    cfgs.sort();
    let root = J::Obj(vec![
        ("crate", J::s(crate_name.clone())),
        ("crate_types", J::Arr(crate_types.iter().map(|s| J::s(s.clone())).collect())),
        ("test", J::Bool(is_test)),
        ("cargo_features", J::Arr(cfgs.into_iter().map(J::s).collect())),
        ("target_features", J::Arr(features)),
        ("bodies", J::Arr(bodies)),
        ("adts", adts),
        ("impls", impls),
        ("consts", consts),
        ("traits", traits),
        ("hir", hir),
        ("types", J::Arr(std::mem::take(&mut cx.types))),
    ]);
    let mut s = String::with_capacity(1 << 24);
    root.write(&mut s);
    let kind = if crate_types.iter().any(|t| t.contains("Executable")) { "bin" } else { "lib" };
    let fname = format!(
        "{}/{}-{}{}-{}.json",
        out_dir,
        crate_name,
        kind,
        if is_test { "-test" } else { "" },
        std::process::id()
    );
    let tmp = format!("{}.tmp", fname);
    std::fs::write(&tmp, s).expect("write facts");
    std::fs::rename(&tmp, &fname).expect("rename facts");
}

struct Cb;

impl Callbacks for Cb {
    fn after_analysis<'tcx>(&mut self, _c: &Compiler, tcx: TyCtxt<'tcx>) -> Compilation {
        with_resolve_crate_name!(with_no_trimmed_paths!(with_no_visible_paths!(export(tcx))));
        Compilation::Continue
    }
}

fn main() {
    let mut args: Vec<String> = std::env::args().collect();
    // RUSTC_WORKSPACE_WRAPPER: argv[1] is the path of the real rustc
    if args.len() > 1 && (args[1].ends_with("rustc") || args[1].contains("/rustc")) {
        args.remove(1);
    }
    rustc_driver::run_compiler(&args, &mut Cb);
}
