//! Minimal JSON value + writer (the driver has zero cargo dependencies).

pub enum J {
    Null,
    Bool(bool),
    Int(i128),
    UInt(u128),
    Float(f64),
    Str(String),
    Arr(Vec<J>),
    Obj(Vec<(&'static str, J)>),
}

impl J {
    pub fn s<S: Into<String>>(s: S) -> J {
        J::Str(s.into())
    }
    pub fn opt_s(s: Option<String>) -> J {
        match s {
            Some(s) => J::Str(s),
            None => J::Null,
        }
    }
    pub fn write(&self, out: &mut String) {
        match self {
            J::Null => out.push_str("null"),
            J::Bool(b) => out.push_str(if *b { "true" } else { "false" }),
            J::Int(i) => out.push_str(&i.to_string()),
            J::UInt(i) => out.push_str(&i.to_string()),
            J::Float(f) => {
                if f.is_finite() {
                    out.push_str(&format!("{:?}", f));
                } else {
                    out.push('"');
                    out.push_str(&format!("{:?}", f));
                    out.push('"');
                }
            }
            J::Str(s) => write_str(s, out),
            J::Arr(v) => {
                out.push('[');
                for (i, e) in v.iter().enumerate() {
                    if i > 0 {
                        out.push(',');
                    }
                    e.write(out);
                }
                out.push(']');
            }
            J::Obj(v) => {
                out.push('{');
                let mut first = true;
                for (k, e) in v.iter() {
                    if !first {
                        out.push(',');
                    }
                    first = false;
                    write_str(k, out);
                    out.push(':');
                    e.write(out);
                }
                out.push('}');
            }
        }
    }
}

fn write_str(s: &str, out: &mut String) {
    out.push('"');
    for c in s.chars() {
        match c {
            '"' => out.push_str("\\\""),
            '\\' => out.push_str("\\\\"),
            '\n' => out.push_str("\\n"),
            '\r' => out.push_str("\\r"),
            '\t' => out.push_str("\\t"),
            c if (c as u32) < 0x20 => out.push_str(&format!("\\u{:04x}", c as u32)),
            c => out.push(c),
        }
    }
    out.push('"');
}
