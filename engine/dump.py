#!/usr/bin/env python3
"""debug helper: dump.py <facts_dir> <substring of key> [--hir]"""
import sys, os, json
sys.path.insert(0, os.path.dirname(os.path.abspath(__file__)))
from sa.facts import Program
from sa import mir
p = Program(sys.argv[1])
pat = sys.argv[2]
if "--hir" in sys.argv:
    for k,(u,h) in p.hir.items():
        if pat in k:
            print(k); print(json.dumps(h, indent=1)[:int(os.environ.get("MAX","20000"))])
else:
    for k, b in p.bodies.items():
        if pat in k:
            mir.dump_body(b)
