"""C07 — traffic from unselected, unacceptable or foreign-domain sources has no effect (NI-1..5)."""
from sa import mir, dataflow as df, conds as cnd, fsm
from sa.effects import effects
from sa.callgraph import callgraph
from sa.facts import AnchorMissing
from rules import fsm_common as fc

LEVEL = "other"
ANCHOR_RULE = "NI-1"
EXPLANATION = (
    "Non-interference is decided as a control-dependence property of the MIR. An EFFECT is any write through "
    "`self`, any call that hands `&mut` of self or of one of its fields (rng, sequence generators, filter, clock, "
    "bmca, packet buffer) to a callee whose bottom-up effect summary is non-empty (external trait methods taking "
    "&mut are effectful), any with_mut critical section and any constructed PortAction; logging is not an effect. "
    "For every effect site the literals that hold on EVERY path to it (edge dominance, bool temporaries expanded) "
    "must contain the gate the property names: NI-1 parse_and_filter returns Continue only under "
    "is_compatible(data) [versionPTP nibble == 2], Message::deserialize == Ok and a with_ref closure that is true "
    "only if header.sdo_id == defaultDS.sdo_id and header.domain_number == defaultDS.domain_number; both receive "
    "entry points have no effect before it returns Continue and dispatch each message type to its own handler; "
    "NI-2 every effect of handle_sync/handle_follow_up requires remote_master == header.source_port_identity; "
    "NI-3 handle_delay_resp additionally requires requesting_port_identity == own port identity; NI-4 in "
    "handle_announce every effect outside the parent block requires register_announce_message(..) == true, whose "
    "own insertion requires sender != own port identity and is_acceptable(sender clock identity), and the parent "
    "block requires state Slave and sender == parentDS.parent_port_identity; NI-5 Management/Signaling and event "
    "messages on the general channel reach no handler."
    ' NI-8 (shared with C04 LEN-2): a frame is parsed only from buffer.get(34..messageLength); a datagram shorter than its declared length is rejected.'
)
NOT_DECIDED = "equality of the two runs at run time; that the compared values are the right ones (e.g. that the parent is acceptable)"


def fields_end(t, *suffix):
    f = df.named_fields(t)
    return f is not None and f[-len(suffix):] == tuple(suffix)


def rooted_self(t):
    return df.path_root(t) == ("arg", 1)


def gate_parent(lits):
    return cnd.has_cmp(lits, "eq", lambda t: fields_end(t, "remote_master") and rooted_self(t),
                       lambda t: fields_end(t, "source_port_identity") and not rooted_self(t))


def gate_requester(lits):
    return cnd.has_cmp(lits, "eq", lambda t: fields_end(t, "port_identity") and rooted_self(t),
                       lambda t: fields_end(t, "requesting_port_identity") and not rooted_self(t))


def closure_true_literals(prog, body, tree):
    """for `with_ref(state, closure)`: literals that hold whenever the closure returns true"""
    t = df.strip(tree)
    if not (t[0] == "call" and t[2] in ("with_ref", "with_mut") and len(t[3]) >= 2):
        return None
    clo = df.strip(t[3][1])
    if not (clo[0] == "agg" and clo[1].startswith("closure:")):
        return None
    cb = callgraph(prog).lookup(body.unit, clo[1][len("closure:"):])
    if cb is None:
        return None
    c = cnd.conds(prog, cb)
    sets = []
    for (bi, si, d) in c.d.whole.get(0, []):
        if d[0] == "assign" and d[1]["k"] == "use":
            v = mir.op_const(d[1]["op"])
            if v is False:
                continue
            if v is True:
                sets.append(set(c.must_literals(bi)))
                continue
        tr = c.prov.rvalue_tree(d[1]) if d[0] == "assign" else c.prov.call_tree(d[1])
        sets.append(set(c.must_literals(bi)) | c._bool_literals(tr, True, 0))
    return cnd.join_literal_sets(sets), cb


# the variant in which parse_and_filter hands the accepted message to its caller (ControlFlow<_, Message>, or an
# Option / Result carrying the message after a refactor)
PASS_VARIANTS = ("Continue", "Some", "Ok")


def check_parent_gates(rep, prog, E, rid2=None, rid3=None):
    """every effect of handle_sync / handle_follow_up / handle_delay_resp is conditional on sender == selected parent
    (and, for Delay_Resp, on requester == own port). Shared with C09 (MEAS-7)."""
    def port(name):
        return prog.one(name=name, self_name="Port", crate="statime-lib")
    # ---------------- NI-2 / NI-3
    for (rid, fn, gates) in ((rid2 or "NI-2", "handle_sync", [("sender == selected parent", gate_parent)]),
                             (rid2 or "NI-2", "handle_follow_up", [("sender == selected parent", gate_parent)]),
                             (rid3 or "NI-3", "handle_delay_resp", [("sender == selected parent", gate_parent),
                                                            ("requester == own port", gate_requester)])):
        try:
            b = port(fn)
        except AnchorMissing as e:
            rep.anchor_missing(rid, str(e))
            continue
        c = cnd.conds(prog, b)
        sites = E.sites(b)
        if not sites:
            rep.violation(rid, b.key, "effects", "no effect site found in %s (analysis lost the handler)" % fn, where=b.loc())
        for (bi, line, kind, text) in sites:
            lits = cnd.expand_literals(prog, b, c.must_literals(bi))
            missing = [nm for (nm, g) in gates if not g(lits)]
            if missing:
                rep.violation(rid, b.key, "%s:%s" % (kind, text),
                              "effect `%s` is not conditional on %s on every path; conditions that hold: %s" % (
                                  text, missing, sorted(cnd.lit_str(l) for l in lits)), where=fc.where(b, line))
            else:
                rep.ok(rid, b.key, "%s:%s" % (kind, text), where=fc.where(b, line))



def run(ctx):
    rep = ctx.report
    prog = ctx.prog("default")
    E = effects(prog)
    rep.rule("NI-1", "Continue only for version 2, parsable, own sdoId and domain; no effect before; dispatch by type", floor=12)
    rep.rule("NI-2", "effects of handle_sync / handle_follow_up require sender == selected parent", floor=9)
    rep.rule("NI-3", "effects of handle_delay_resp require sender == parent and requester == own port", floor=2)
    rep.rule("NI-4", "Announce effects require the acceptance gate; parent update requires sender == parent in Slave", floor=8)
    rep.rule("NI-5", "Management/Signaling and misdirected event messages reach no handler", floor=1)
    rep.extra["effectful_bodies"] = sum(1 for v in E.summary.values() if v)

    def port(name):
        return prog.one(name=name, self_name="Port", crate="statime-lib")

    # ---------------- NI-1
    try:
        pf = port("parse_and_filter")
        c = cnd.conds(prog, pf)
        if E.summary.get(pf.key):
            rep.violation("NI-1", pf.key, "effect-free", "parse_and_filter has effects: %s" % E.sites(pf), where=pf.loc())
        else:
            rep.ok("NI-1", pf.key, "effect-free", where=pf.loc())
        found = False
        for (bi, line_, lits0) in pass_sites(prog, pf, c):
            if True:
                found = True
                # helpers the filter was split into are read through (what they guarantee when they return Some/true)
                lits = cnd.expand_literals(prog, pf, lits0, depth=3)
                compat = any(l[0] == "bool" and l[2] is True and df.strip(l[1])[0] == "call" and
                             df.strip(l[1])[2] in ("is_compatible", "is_message_buffer_compatible") for l in lits)
                parsed = any(l[0] == "variant" and l[2] == frozenset(["Ok"]) and df.strip(l[1])[0] == "call" and
                             df.strip(l[1])[2] == "deserialize" for l in lits)
                dom = sdo = False
                for l in lits:
                    if l[0] == "bool" and l[2] is True:
                        r = closure_true_literals(prog, pf, l[1])
                        if r:
                            cl, cb = r
                            sdo = sdo or cnd.has_cmp(cl, "eq", lambda t: fields_end(t, "default_ds", "sdo_id"),
                                                     lambda t: not fields_end(t, "default_ds", "sdo_id"))
                            dom = dom or cnd.has_cmp(cl, "eq", lambda t: fields_end(t, "default_ds", "domain_number"),
                                                     lambda t: not fields_end(t, "default_ds", "domain_number"))
                for (nm, ok) in (("version gate is_compatible(data)", compat), ("Message::deserialize == Ok", parsed),
                                 ("sdoId == defaultDS.sdo_id", sdo), ("domainNumber == defaultDS.domain_number", dom)):
                    if ok:
                        rep.ok("NI-1", pf.key, "Continue needs " + nm, where=fc.where(pf, line_))
                    else:
                        rep.violation("NI-1", pf.key, "Continue needs " + nm,
                                      "parse_and_filter can return Continue without `%s`; conditions that hold: %s" % (
                                          nm, sorted(cnd.lit_str(l) for l in lits)), where=fc.where(pf, line_))
        if not found:
            rep.violation("NI-1", pf.key, "Continue", "no ControlFlow::Continue result found", where=pf.loc())
        # is_compatible: version nibble
        ic = prog.one(name="is_compatible", crate="statime-lib")
        cc = cnd.conds(prog, ic)
        okv = False
        for (bi, si, d) in cc.d.whole.get(0, []):
            if d[0] == "assign":
                tr = cc.prov.rvalue_tree(d[1])
                s_ = df.canon(tr, ic)
                if "bitand(buffer, 15)" in s_.replace("[_", "").replace("]", "") or ("bitand" in s_ and "15" in s_):
                    if tr[0] == "bin" and tr[1] == "Eq" and df._num(tr[3]) == 2:
                        okv = True
        if okv:
            rep.ok("NI-1", ic.key, "versionPTP nibble == 2", where=ic.loc())
        else:
            rep.violation("NI-1", ic.key, "versionPTP nibble == 2",
                          "is_compatible no longer tests (buffer[1] & 0x0f) == 2", where=ic.loc())
        # entry points: effects only after Continue
        for en in ("handle_event_receive", "handle_general_receive"):
            b = port(en)
            cb_ = cnd.conds(prog, b)
            for (bi, line, kind, text) in E.sites(b):
                lits = cb_.must_literals(bi)
                ok = any(l[0] == "variant" and len(l[2]) == 1 and set(l[2]) <= set(PASS_VARIANTS) and df.strip(l[1])[0] == "call" and
                         df.strip(l[1])[2] == "parse_and_filter" for l in lits)
                if ok:
                    rep.ok("NI-1", b.key, "after-filter:%s" % text, where=fc.where(b, line))
                else:
                    rep.violation("NI-1", b.key, "after-filter:%s" % text,
                                  "effect `%s` can happen although parse_and_filter did not return Continue" % text,
                                  where=fc.where(b, line))
        # dispatch by message type
        dispatch = {"handle_event_receive": {"handle_sync": {"Sync"}, "handle_delay_req": {"DelayReq"},
                                             "handle_pdelay_req": {"PDelayReq"}, "handle_peer_delay_response": {"PDelayResp"}},
                    "handle_general_internal": {"handle_announce": {"Announce"}, "handle_follow_up": {"FollowUp"},
                                                "handle_delay_resp": {"DelayResp"},
                                                "handle_peer_delay_response_follow_up": {"PDelayRespFollowUp"}}}
        for en, table in dispatch.items():
            b = port(en)
            cb_ = cnd.conds(prog, b)
            seen = set()
            for bi, t, cal in mir.iter_calls(b):
                if cal["name"] in table:
                    seen.add(cal["name"])
                    lits = cb_.must_literals(bi)
                    vs = None
                    for l in lits:
                        if l[0] == "variant" and l[3] == "MessageBody":
                            vs = set(l[2]) if vs is None else vs & set(l[2])
                    if vs is not None and vs <= table[cal["name"]]:
                        rep.ok("NI-1" if en != "handle_general_internal" else "NI-5", b.key,
                               "dispatch %s<=%s" % (cal["name"], sorted(vs)), where=fc.where(b, t["sp"][1]))
                    else:
                        rep.violation("NI-1" if en != "handle_general_internal" else "NI-5", b.key,
                                      "dispatch %s" % cal["name"],
                                      "%s is called for message bodies %s (expected only %s)" % (
                                          cal["name"], sorted(vs) if vs is not None else "any", sorted(table[cal["name"]])),
                                      where=fc.where(b, t["sp"][1]))
            # effects outside the dispatch table?
            for (bi, line, kind, text) in E.sites(b):
                nm = text.split("(")[0]
                if kind == "call" and (nm in table or nm == "handle_general_internal"):
                    continue
                rep.violation("NI-5", b.key, "extra-effect:%s" % text,
                              "%s has an effect outside the per-type dispatch: %s" % (en, text), where=fc.where(b, line))
    except AnchorMissing as e:
        rep.anchor_missing("NI-1", str(e))

    check_parent_gates(rep, prog, E)

    rep.rule("NI-7", "TLVs are queued for forwarding only from Announces that passed the acceptance gate", floor=1)
    fc.check_forward_gate(rep, prog, "NI-7")

    # ---------------- NI-8: a frame shorter than it claims to be is malformed and must be rejected, not parsed from
    # whatever octets arrived (shared with C04 LEN-2)
    rep.rule("NI-8", "a frame is parsed only from buffer.get(34..messageLength) (a datagram shorter than its declared length, "
                     "or a declared length below the header size, is rejected) - shared with C04 LEN-2", floor=3)
    from rules import c04 as _c04
    _c04.len2(rep, prog, "NI-8", only_receive=True)

    # ---------------- NI-6: the parent the gates compare against follows the BMCA's choice exactly
    rep.rule("NI-6", "on S1 a Slave port keeps its SlaveState only when its remote_master equals the new parent as a full "
                     "PortIdentity (otherwise the sender gates of NI-2/NI-3 compare against a stale parent)", floor=1)
    try:
        sp = port("set_recommended_port_state")
        pvs = df.Prov(sp)
        n6 = 0
        for bi, t in mir.iter_terms(sp, "switch"):
            tr = df.strip(pvs.op_tree(t["discr"]))
            alts = [df.strip(x) for x in tr[1]] if tr[0] == "phi" else [tr]
            for a in alts:
                if "remote_master(" not in df.canon(a, sp):
                    continue
                n6 += 1
                ok = a[0] == "call" and a[2] in ("ne", "eq") and len(a[3]) == 2
                if ok:
                    x, y = df.strip(a[3][0]), df.strip(a[3][1])
                    ok = x[0] == "call" and x[2] == "remote_master" and \
                        (df.named_fields(y) or ("",))[-1] == "source_port_identity"
                if ok:
                    rep.ok("NI-6", sp.key, "keep SlaveState iff same parent", detail=df.canon(a, sp), where=fc.where(sp, t["sp"][1]))
                else:
                    rep.violation("NI-6", sp.key, "keep SlaveState iff same parent",
                                  "the decision whether an S1 recommendation replaces the SlaveState is `%s`: it must compare the "
                                  "stored remote_master with the new parent's full source PortIdentity (a parent that moves to "
                                  "another port of the same clock would leave the sender gates comparing against the old port)"
                                  % df.canon(a, sp), where=fc.where(sp, t["sp"][1]))
        if n6 == 0:
            rep.anchor_missing("NI-6", "no comparison of remote_master() found in set_recommended_port_state")
    except AnchorMissing as e:
        rep.anchor_missing("NI-6", str(e))

    # ---------------- NI-4
    try:
        ha = port("handle_announce")
        c = cnd.conds(prog, ha)
        for (bi, line, kind, text) in E.sites(ha):
            lits = c.must_literals(bi)
            if kind == "call" and text.startswith("register_announce_message("):
                continue  # the gate itself; its body is checked below
            accepted = any(l[0] == "bool" and l[2] is True and df.strip(l[1])[0] == "call" and
                           df.strip(l[1])[2] == "register_announce_message" for l in lits)
            parent = False
            if "Slave" in fsm.port_state_set(lits) and fsm.port_state_set(lits) <= {"Slave"}:
                for l in lits:
                    if l[0] == "cmp" and l[1] == "eq":
                        for a, b_ in ((l[2], l[3]), (l[3], l[2])):
                            if fields_end(a, "header", "source_port_identity") and not rooted_self(a):
                                tb = df.strip(b_)
                                if tb[0] == "call" and tb[2] == "with_ref":
                                    clo = df.strip(tb[3][1])
                                    if clo[0] == "agg" and clo[1].startswith("closure:"):
                                        cb = callgraph(prog).lookup(ha.unit, clo[1][len("closure:"):])
                                        if cb is not None:
                                            rt, _ = fc.closure_return_tree(prog, cb)
                                            if fields_end(rt, "parent_ds", "parent_port_identity"):
                                                parent = True
            if accepted or parent:
                rep.ok("NI-4", ha.key, "%s:%s" % (kind, text), detail="accepted" if accepted else "from-parent-in-Slave",
                       where=fc.where(ha, line))
            else:
                rep.violation("NI-4", ha.key, "%s:%s" % (kind, text),
                              "Announce effect `%s` is neither behind register_announce_message(..)==true nor in the "
                              "parent-update block (Slave and sender == parentDS.parent_port_identity); conditions: %s" % (
                                  text, sorted(cnd.lit_str(l) for l in lits)), where=fc.where(ha, line))
        # the gate function(s)
        for fn in ("register_announce_message", "reregister_announce_message"):
            try:
                g = prog.one(name=fn, self_name="Bmca", crate="statime-lib")
            except AnchorMissing:
                if fn == "reregister_announce_message":
                    # the two gate functions may have been merged into one that takes the age: the first iteration
                    # has checked that one
                    g0 = prog.one(name="register_announce_message", self_name="Bmca", crate="statime-lib")
                    rep.ok("NI-4", g0.key, "re-registration goes through the same gated function", where=g0.loc())
                    continue
                raise
            cg_ = cnd.conds(prog, g)
            sites = E.sites(g)
            if not sites:
                rep.violation("NI-4", g.key, "insertion", "no insertion found in %s" % fn, where=g.loc())
            for (bi, line, kind, text) in sites:
                lits = cnd.expand_literals(prog, g, cg_.must_literals(bi))
                own = cnd.has_cmp(lits, "ne", lambda t: fields_end(t, "header", "source_port_identity") and not rooted_self(t),
                                  lambda t: fields_end(t, "own_port_identity") and rooted_self(t))
                acc = False
                for l in lits:
                    if l[0] == "bool" and l[2] is True:
                        t = df.strip(l[1])
                        if t[0] == "call" and t[2] == "is_acceptable" and len(t[3]) == 2:
                            if fields_end(t[3][1], "header", "source_port_identity", "clock_identity") and \
                                    fields_end(t[3][0], "acceptable_master_list"):
                                acc = True
                missing = []
                if not own:
                    missing.append("sender port identity != own port identity")
                if not acc:
                    missing.append("acceptable_master_list.is_acceptable(sender clock identity)")
                if missing:
                    rep.violation("NI-4", g.key, "%s:%s" % (kind, text),
                                  "foreign master insertion is not conditional on %s; conditions: %s" % (
                                      missing, sorted(cnd.lit_str(l) for l in lits)), where=fc.where(g, line))
                else:
                    rep.ok("NI-4", g.key, "%s:%s" % (kind, text), where=fc.where(g, line))
            if fn == "register_announce_message":
                # returns true only on the accepting path
                ret_defs = list(cg_.d.whole.get(0, []))
                for _hop in range(3):
                    # `_0 = move _x`: the definitions of _x are the ones that decide (value returned through a local)
                    nxt = []
                    for (bi, si, d) in ret_defs:
                        pl = mir.op_place(d[1]["op"]) if d[0] == "assign" and d[1]["k"] == "use" else None
                        if pl is not None and not pl["proj"] and cg_.d.whole.get(pl["l"]):
                            nxt.extend(cg_.d.whole[pl["l"]])
                        else:
                            nxt.append((bi, si, d))
                    ret_defs = nxt
                if not any(d[0] == "assign" and d[1]["k"] == "use" and mir.op_const(d[1]["op"]) is True
                           for (_, _, d) in ret_defs):
                    # `let accepted = <gate>; if accepted { insert }; accepted`: the returned bool is the very flag the
                    # insertion is switched on
                    flag = None
                    for (bi, si, d) in cg_.d.whole.get(0, []):
                        pl = mir.op_place(d[1]["op"]) if d[0] == "assign" and d[1]["k"] == "use" else None
                        if pl is not None and not pl["proj"]:
                            flag = cg_._copy_root(pl["l"])
                    gcfg = mir.cfg(g)
                    okf = False
                    if flag is not None:
                        for bj, tj in mir.iter_terms(g, "switch"):
                            pj = mir.op_place(tj["discr"])
                            if pj is None or pj["proj"] or cg_._copy_root(pj["l"]) != flag:
                                continue
                            true_t = tj["otherwise"] if 0 in [v for v, _ in tj["targets"]] else None
                            if true_t is not None and any(gcfg.dominates(true_t, s[0]) or true_t == s[0] for s in sites):
                                okf = True
                    if okf:
                        rep.ok("NI-4", g.key, "returns true only after insertion", detail="returns the flag the insertion is "
                               "switched on", where=g.loc())
                    else:
                        rep.violation("NI-4", g.key, "returns true only after insertion",
                                      "register_announce_message returns a computed bool that is not the condition its insertion "
                                      "is switched on", where=g.loc())
                for (bi, si, d) in ret_defs:
                    if d[0] == "assign" and d[1]["k"] == "use" and mir.op_const(d[1]["op"]) is True:
                        eff_blocks = {s[0] for s in sites}
                        gcfg = mir.cfg(g)
                        if any(eb == bi or gcfg.dominates(eb, bi) for eb in eff_blocks):
                            rep.ok("NI-4", g.key, "returns true only after insertion", where=g.loc())
                        else:
                            rep.violation("NI-4", g.key, "returns true only after insertion",
                                          "register_announce_message can return true without having accepted the message",
                                          where=g.loc())
    except AnchorMissing as e:
        rep.anchor_missing("NI-4", str(e))



def pass_sites(prog, pf, c):
    """(block, line, literals) for every way parse_and_filter hands a message on: an aggregate Continue/Some/Ok stored
    to the return place, or `cond.then_some(message)` returned directly (passes exactly when cond holds)"""
    out = []
    for bi, si, s in mir.iter_stmts(pf):
        if s["k"] == "assign" and s["p"]["l"] == 0 and not s["p"]["proj"] and s["r"]["k"] == "agg" and \
                s["r"].get("variant") in PASS_VARIANTS:
            out.append((bi, s["sp"][1], set(c.must_literals(bi))))
    for bi, t, cal in mir.iter_calls(pf, name="then_some"):
        if t["dest"]["l"] == 0 and not t["dest"]["proj"] and len(t["args"]) == 2:
            lits = set(c.must_literals(bi)) | set(c._bool_literals(df.strip(c.prov.op_tree(t["args"][0])), True, 0))
            out.append((bi, t["sp"][1], lits))
    return out

def check_domain_gate(rep, prog, rid):
    """parse_and_filter passes a message on only when BOTH its sdoId and its domainNumber equal defaultDS's (used by
    C10: responses copy those two fields from the request header)"""
    try:
        pf = prog.one(name="parse_and_filter", self_name="Port", crate="statime-lib")
        c = cnd.conds(prog, pf)
        found = False
        for (bi, line_, lits0) in pass_sites(prog, pf, c):
            if True:
                found = True
                lits = cnd.expand_literals(prog, pf, lits0, depth=3)
                dom = sdo = False
                for l in lits:
                    if l[0] == "bool" and l[2] is True:
                        r = closure_true_literals(prog, pf, l[1])
                        if r:
                            cl, cb = r
                            sdo = sdo or cnd.has_cmp(cl, "eq", lambda t: fields_end(t, "default_ds", "sdo_id"),
                                                     lambda t: not fields_end(t, "default_ds", "sdo_id"))
                            dom = dom or cnd.has_cmp(cl, "eq", lambda t: fields_end(t, "default_ds", "domain_number"),
                                                     lambda t: not fields_end(t, "default_ds", "domain_number"))
                for (nm, ok) in (("sdoId == defaultDS.sdo_id", sdo), ("domainNumber == defaultDS.domain_number", dom)):
                    if ok:
                        rep.ok(rid, pf.key, "request accepted only with " + nm, where=fc.where(pf, line_))
                    else:
                        rep.violation(rid, pf.key, "request accepted only with " + nm,
                                      "a request can pass the receive filter without `%s`, and Delay_Resp / Pdelay_Resp copy "
                                      "sdoId and domainNumber from the request header: a response would bear a foreign "
                                      "sdoId/domain; conditions that hold: %s" % (nm, sorted(cnd.lit_str(l) for l in lits)),
                                      where=fc.where(pf, line_))
        if not found:
            rep.violation(rid, pf.key, "request accepted", "no passing result found in parse_and_filter", where=pf.loc())
    except AnchorMissing as e:
        rep.anchor_missing(rid, str(e))
