"""C14 — peer-delay measurement is exact and guarded against multiple responders (PD-1..4)."""
from sa import mir, dataflow as df, conds as cnd, fsm
from sa.stores import stores
from sa.facts import AnchorMissing
from rules import meas_common as mc
from rules import fsm_common as fc

LEVEL = "other"
ANCHOR_RULE = "PD-1"
EXPLANATION = (
    "Static rules over the MIR of the peer-delay code paths. PD-1a: every transition into Faulty (rows of the "
    "extracted port FSM) is, on every path, conditional on exactly: requester identity match, a current exchange "
    "(Measuring/PostMeasurement) with `id == header.sequence_id`, and a recorded responder different from the "
    "sender — no further precondition may narrow the detection (an arm placed in front of it would show up as an "
    "extra literal) — and no store into peer_delay_state and no call of handle_time_measurement lies on a path "
    "through it (the later response is not used). PD-1b: Faulty is left only at the recovery site, which is "
    "conditional on a complete single-responder exchange and state Faulty; every other row whose prior-state "
    "set contains Faulty is reported. PD-2: every emitter of master/slave messages runs only in states that "
    "exclude Faulty. PD-3: link-delay formula and the per-message corrections as linear forms against "
    "engine/spec/formulas.json. PD-4: every store into an existing peer-delay exchange is gated on the id match "
    "and on the requester identity; a new exchange inherits nothing."
    ' PD-8 (= C16 OPS-1): the Time/Duration operators used for t4 and the link delay have their arithmetic meaning for operands of either sign.'
)
NOT_DECIDED = ("whether a filter that only receives peer-delay samples steers the clock while Faulty (depends on the "
               "Filter impl); numeric exactness")

PD_FNS = ["handle_pdelay_timestamp", "handle_peer_delay_response", "handle_peer_delay_response_follow_up",
          "send_p2p_delay_request", "extract_measurement"]
REL = r"peer_delay_state|^result\.(peer_delay|event_time)$"
TS_FIELDS = ["request_send_time", "request_recv_time", "response_send_time", "response_recv_time", "responder_identity"]


def lit_class(l):
    """classify a literal of a ->Faulty row; returns a tag or None (= not allowed)"""
    if l[0] == "variant":
        f = df.named_fields(l[1])
        if f == ("peer_delay_state",):
            return "state"
        if f == ("peer_delay_state", "responder_identity"):
            return "responder-known" if l[2] == frozenset(["Some"]) else None
        if f and f[0] in ("port_state", "config"):
            return "neutral"
        return None
    if l[0] == "cmp":
        def alts(t):
            # an or-pattern binding (`A { id, .. } | B { id, .. }`) is a phi of the two projections: every alternative
            # must be the expected field
            t = df.strip(t)
            return [df.strip(x) for x in t[1]] if t[0] == "phi" else [t]
        sides = [[(df.path_root(x), df.named_fields(x)) for x in alts(l[2])],
                 [(df.path_root(x), df.named_fields(x)) for x in alts(l[3])]]
        def has(fields_suffix, root_self):
            for side in sides:
                if side and all(f is not None and f[-len(fields_suffix):] == tuple(fields_suffix) and
                                ((r == ("arg", 1)) == root_self) for (r, f) in side):
                    return True
            return False
        if l[1] == "eq" and has(("peer_delay_state", "id"), True) and has(("sequence_id",), False):
            return "id-eq"
        if l[1] == "ne" and has(("responder_identity",), True) and has(("source_port_identity",), False):
            return "responder-ne"
        if l[1] == "eq" and has(("port_identity",), True) and has(("requesting_port_identity",), False):
            return "requester-eq"
        return None
    if l[0] == "bool":
        return None
    return None


def run(ctx):
    rep = ctx.report
    prog = ctx.prog("default")
    rep.rule("PD-1a", "->Faulty only on responder mismatch for the current request, effect-free, not shadowed", floor=2)
    rep.rule("PD-1b", "Faulty is left only at the single-responder recovery site", floor=1)
    rep.rule("PD-2", "no emitter can run in state Faulty", floor=5)
    rep.rule("PD-3", "peer-delay formula and corrections have the IEEE linear form", floor=15)
    rep.rule("PD-4", "stores into an existing peer-delay exchange are gated on id and requester identity", floor=7)
    rep.rule("PD-6", "responder side: Pdelay_Resp / Pdelay_Resp_Follow_Up carry the request's correction, the receive "
                     "and response-origin times and echo requester and sequence id (wiring shared with C10 TX-2)", floor=12)
    from rules import c10 as _c10
    _c10.check_msg_wiring(rep, prog, _c10.load_spec(ctx), "PD-6", names={"pdelay_req", "pdelay_resp", "pdelay_resp_follow_up"})
    rep.rule("PD-5", "start_bmca/end_bmca keep port_state (Faulty), peer_delay_state, mean_delay and the pdelay "
                     "sequence generator", floor=2)
    fc.check_lifecycle_transfer(rep, prog, "PD-5", fields={"port_state", "peer_delay_state", "mean_delay",
                                                           "pdelay_seq_ids"}, check_pending=False)
    rep.rule("PD-8", "the Time/Duration operators the link-delay computation uses (t4 = receive time - correction, ...) have "
                     "their arithmetic meaning for operands of either sign - shared with C16 OPS-1", floor=8)
    from rules import timeops as _timeops
    _timeops.check_ops(rep, prog, "PD-8")
    rows = fsm.transitions(prog)
    rep.rule("PD-7", "when a second responder is detected while an exchange is still being measured, that exchange is "
                     "discarded (peer_delay_state reset) so it cannot complete and un-fault the port", floor=2)
    for r in rows:
        b = r["body"]
        if (r["to"] or set()) == {"Faulty"}:
            vs = None
            for l in r["lits"]:
                if l[0] == "variant" and l[3] == "PeerDelayState":
                    vs = set(l[2]) if vs is None else vs & set(l[2])
            if vs == {"Measuring"}:
                sts7, pv7 = stores(b)
                g7 = mir.cfg(b)
                resets = [s7 for s7 in sts7 if s7["lhs"] == "self.peer_delay_state" and
                          df.canon(s7["tree"], b).startswith("PeerDelayState::Empty")]
                ok7 = any(s7["bb"] == r["bb"] or g7.dominates(s7["bb"], r["bb"]) and g7.postdominates(r["bb"], s7["bb"]) or
                          g7.postdominates(s7["bb"], r["bb"]) for s7 in resets)
                if ok7:
                    rep.ok("PD-7", b.key, "in-flight exchange discarded on ->Faulty", where=fc.where(b, r["line"]))
                else:
                    rep.violation("PD-7", b.key, "in-flight exchange discarded on ->Faulty",
                                  "a second responder makes the port Faulty but the exchange being measured stays in "
                                  "peer_delay_state: the first responder's pending follow-up then completes it, the "
                                  "measurement of this doubly-answered exchange reaches the filter and the port leaves Faulty",
                                  where=fc.where(b, r["line"]))
    for r in rows:
        b = r["body"]
        to = r["to"] or set()
        if to == {"Faulty"}:
            classes = {}
            extra = []
            for l in r["lits"]:
                c = lit_class(l)
                if c is None:
                    extra.append(cnd.lit_str(l))
                else:
                    classes[c] = True
            need = ["state", "id-eq", "responder-ne"]
            missing = [n for n in need if n not in classes]
            # effect-freeness: no store into peer_delay_state / call of handle_time_measurement on a path through
            g = mir.cfg(b)
            anc = set()
            st = [r["bb"]]
            while st:
                x = st.pop()
                if x in anc:
                    continue
                anc.add(x)
                st.extend(g.pred[x])
            desc = g.reachable_from(r["bb"])
            region = (anc | desc) - {g.EXIT}
            sts, pv = stores(b)
            # discarding the exchange (peer_delay_state = Empty) is not a use of the second response (PD-7 requires it)
            eff = ["store %s@L%d" % (s["lhs"], s["line"]) for s in sts
                   if s["bb"] in region and "peer_delay_state" in s["lhs"] and not s["macro"] and
                   not (s["lhs"] == "self.peer_delay_state" and df.canon(s["tree"], b).startswith("PeerDelayState::Empty"))]
            for bi, t, c in mir.iter_calls(b, name="handle_time_measurement"):
                if bi in region:
                    eff.append("handle_time_measurement@L%d" % t["sp"][1])
            # not shadowed: no branch that can precede the detection tests another timestamp field of the exchange
            cc = cnd.conds(prog, b)
            for a in sorted(anc):
                if a >= len(b.blocks) or b.blocks[a]["term"]["k"] != "switch":
                    continue
                tr = cc.prov.op_tree(b.blocks[a]["term"]["discr"])
                for lf in df.leaves(tr):
                    if lf[0] == "path":
                        nf = tuple(x for x in lf[2] if x != "*" and not x.startswith("as ") and not x.isdigit()
                                   and not x.startswith("["))
                        if len(nf) >= 2 and nf[0] == "peer_delay_state" and nf[1] not in ("id", "responder_identity"):
                            extra.append("a test of peer_delay_state.%s at L%d precedes the detection" % (
                                nf[1], b.blocks[a]["term"]["sp"][1]))
            extra = sorted(set(extra))
            construct = "->Faulty"
            if missing or extra or eff:
                what = []
                if missing:
                    what.append("missing condition(s) %s" % missing)
                if extra:
                    what.append("detection additionally depends on %s (a response can be swallowed before the "
                                "multiple-responder check)" % extra)
                if eff:
                    what.append("the path through the fault also does %s" % eff)
                rep.violation("PD-1a", b.key, construct, "; ".join(what), where=fc.where(b, r["line"]))
            else:
                rep.ok("PD-1a", b.key, construct, detail=sorted(cnd.lit_str(l) for l in r["lits"]),
                       where=fc.where(b, r["line"]))
        elif "Faulty" in r["from"]:
            # leaving Faulty
            lits = r["lits"]
            complete = all(cnd.has_variant(lits, ("peer_delay_state", f), {"Some"}) for f in TS_FIELDS)
            only_f = r["from"] == {"Faulty"}
            construct = "Faulty->%s" % "/".join(sorted(to))
            if complete and only_f:
                rep.ok("PD-1b", b.key, construct, detail="conditional on a complete single-responder exchange",
                       where=fc.where(b, r["line"]))
            else:
                rep.violation("PD-1b", b.key, construct,
                              "a port in state Faulty is moved to %s here without a completed single-responder "
                              "peer-delay exchange (prior states {%s})" % ("/".join(sorted(to)), ",".join(sorted(r["from"]))),
                              where=fc.where(b, r["line"]))
    # ---- PD-2 emitters
    emitters = {"sync": {"Master"}, "follow_up": {"Master"}, "announce": {"Master"}, "delay_resp": {"Master"},
                "delay_req": {"Slave"}}
    for b in prog.bodies.values():
        if b.unit.name != "statime-lib" or b.is_test():
            continue
        for bi, t, c in mir.iter_calls(b):
            if c["name"] in emitters and "messages::<Message>::" in c["key"]:
                states, kills, (ob, obb) = fc.state_at_site(prog, b, bi)
                construct = "Message::%s" % c["name"]
                if "Faulty" in states or kills:
                    rep.violation("PD-2", ob.key, construct,
                                  "%s can be built while the port may be Faulty (states %s%s)" % (
                                      construct, sorted(states), ", state may change before use: %s" % kills if kills else ""),
                                  where=fc.where(b, t["sp"][1]))
                else:
                    rep.ok("PD-2", ob.key, construct, detail=sorted(states), where=fc.where(b, t["sp"][1]))
    # ---- PD-3 / PD-4
    spec = mc.load_spec(ctx)
    mc.check_formulas(ctx, "PD-3", PD_FNS, REL, spec)
    mc.check_id_gates(ctx, "PD-4", ["handle_pdelay_timestamp", "handle_peer_delay_response",
                                    "handle_peer_delay_response_follow_up"], "peer_delay_state", TS_FIELDS, None)
    mc.check_no_inherit(ctx, "PD-4", ["send_p2p_delay_request"], "peer_delay_state", ("peer_delay_state",))
    # requester gate
    for fn in ["handle_peer_delay_response", "handle_peer_delay_response_follow_up"]:
        try:
            b = prog.one(name=fn, self_name="Port", crate="statime-lib")
        except AnchorMissing as e:
            rep.anchor_missing("PD-4", str(e))
            continue
        c = cnd.conds(prog, b)
        sts, pv = stores(b)
        for s in sts:
            if "peer_delay_state" in s["lhs"] and not s["macro"]:
                lits = c.must_literals(s["bb"])
                ok = any(lit_class(l) == "requester-eq" for l in lits)
                if ok:
                    rep.ok("PD-4", b.key, "requester-gate:%s" % s["lhs"], where=fc.where(b, s["line"]))
                else:
                    rep.violation("PD-4", b.key, "requester-gate:%s" % s["lhs"],
                                  "store into %s is not conditional on requestingPortIdentity == own port identity" % s["lhs"],
                                  where=fc.where(b, s["line"]))
