"""C16 — time arithmetic and wire time conversions are exact: the two structural clauses WRAP and SCALE."""
import os, re, collections
from sa import mir, dataflow as df, conds as cnd
from sa.ranges import Ranges, ty_range
from sa.facts import AnchorMissing
from rules import fsm_common as fc

LEVEL = "other"
ANCHOR_RULE = "SCALE-1"
EXPLANATION = (
    "Two structural clauses of the property are decided. WRAP-1 ('no silent wrap'): every range-losing "
    "conversion in time/*, common/timestamp.rs and common/time_interval.rs — narrowing integer casts, wrapping_*/"
    "saturating_* calls, az, lossy_into/to_num/saturating_to_num/lossless_try_into to a narrower type — is "
    "enumerated from MIR and either discharged by value ranges or listed in engine/tables/c16_sites.txt with its "
    "safe input range; a new or changed conversion is reported. SCALE-1: the shift in Duration -> TimeInterval "
    "equals Frac(I96F32) - Frac(I48F16), both decoded from the typenum arguments of the field types, it is an "
    "arithmetic right shift of the signed 128-bit value (rounding toward minus infinity) and is applied BEFORE "
    "the narrowing cast; TimeInterval -> Duration is the widening to_fixed of the same value; Time::subnano "
    "narrows to exactly the wire's 16 fractional bits. SCALE-2: the sibling conversions use the same constants: "
    "10^9 in Time::{secs, subsec_nanos, from_secs}, Duration::{secs, seconds, from_secs, from_seconds, "
    "from_log_interval, from_interval} and From<WireTimestamp>; 10^6 / 10^3 in from_millis / from_micros; "
    "log intervals are 2^n through powi of the literal 2.0. OPS-1: every Add/Sub/Neg/Mul/Div/Rem (and op-assign) impl on Time and Duration is reduced, per path and with "
    "unsigned_abs resolved from the is_negative literal of that path, to a linear form that must equal a+b / a-b / -a "
    "(multiplicative ones: op(self, rhs) in that order). EXACT-1: From<WireTimestamp> for Time multiplies in "
    "a type of at least 80 bits (48-bit seconds * 10^9), Time - Time is computed on the signed 96.32 "
    "representation of both operands."
)
NOT_DECIDED = ("exactness of the fixed-point results themselves, round trips over the value ranges and rounding of "
               "every operation (numeric, outside static reach); overflow panics are C03 sites")

MODS = ("statime::time::", "common::timestamp", "common::time_interval")
CONV = {"az", "lossy_into", "to_num", "saturating_to_num", "wrapping_to_num", "lossless_try_into", "overflowing_to_num",
        "unwrapped_to_num", "checked_to_num"}


def typenum(s):
    """decode typenum::uint::UInt<...> binary encoding inside a type string"""
    m = re.search(r"(typenum::uint::UInt<.*>|typenum::uint::UTerm)", s)
    if not m:
        return None
    toks = re.findall(r"UInt<|UTerm|B0|B1", m.group(1))
    bits = [1 if t == "B1" else 0 for t in toks if t in ("B0", "B1")]
    v = 0
    # nesting: UInt<UInt<UTerm, B1>, B0> : innermost bit is most significant
    for b in bits:
        v = v * 2 + b
    return v


def load_table(ctx):
    p = os.path.join(ctx.verif, "engine", "tables", "c16_sites.txt")
    t = {}
    for line in open(p):
        if line.startswith("#") or " || " not in line:
            continue
        k, why = line.rstrip("\n").split(" || ", 1)
        t[k.strip()] = why.strip()
    return t


def run(ctx):
    rep = ctx.report
    prog = ctx.prog("default")
    rep.rule("WRAP-1", "every range-losing conversion in the time modules is range-discharged or reviewed", floor=10)
    rep.rule("SCALE-1", "shift amounts equal the difference of the types' fractional bits; shift before narrowing", floor=4)
    rep.rule("SCALE-2", "sibling conversions agree on 10^9 / 10^6 / 10^3 / 2^n", floor=12)
    rep.rule("EXACT-1", "wide intermediate types in wire-time conversions and time differences", floor=2)
    rep.rule("OPS-1", "every core::ops impl on Time/Duration has its arithmetic meaning on every path (sign-aware "
                      "linear form)", floor=16)
    from rules import timeops
    timeops.check_ops(rep, prog, "OPS-1")
    table = load_table(ctx)
    used = set()
    ordn = collections.Counter()

    # ---------------- WRAP-1
    for b in prog.bodies.values():
        if b.unit.name != "statime-lib" or b.is_test() or not any(m in b.key for m in MODS):
            continue
        if "serde" in (b.trait or "") or "_::" in b.key or (b.trait or "") in ("core::fmt::Display", "core::fmt::Debug"):
            continue
        pv = None
        rg = None
        sites = []
        for bi, si, s in mir.iter_stmts(b):
            if s["k"] == "assign" and s["r"]["k"] == "cast" and s["r"]["ck"] in ("IntToInt", "FloatToInt") and not s["sp"][4]:
                pv = pv or df.Prov(b)
                rg = rg or Ranges(prog, b)
                dst = ty_range(b.ty(s["r"]["ty"])["s"])
                src = rg.op_range(s["r"]["op"])
                sig = "cast<%s>(%s)" % (b.ty(s["r"]["ty"])["s"], df.canon(pv.op_tree(s["r"]["op"]), b))
                ok = src is not None and dst is not None and src[0] >= dst[0] and src[1] <= dst[1]
                sites.append((sig, s["sp"][1], "value range %s fits %s" % (src, b.ty(s["r"]["ty"])["s"]) if ok else None))
        for bi, t, cal in mir.iter_calls(b):
            if t["sp"][4]:
                continue
            nm = cal["name"]
            if nm in CONV or nm.startswith("wrapping_") or nm.startswith("saturating_"):
                pv = pv or df.Prov(b)
                sig = df.canon(pv.call_tree(t), b)
                sites.append((sig, t["sp"][1], None))
        for (sig, line, why) in sites:
            base = "%s|%s" % (b.key, sig)
            key = "%s|#%d" % (base, ordn[base])
            ordn[base] += 1
            where = fc.where(b, line)
            if why:
                rep.ok("WRAP-1", b.key, sig, detail=why, where=where)
            elif key in table:
                used.add(key)
                rep.ok("WRAP-1", b.key, sig, detail="reviewed: " + table[key], where=where, nontrivial=False)
            else:
                rep.violation("WRAP-1", b.key, sig,
                              "range-losing conversion `%s` is neither proven to fit by value ranges nor in the reviewed table: "
                              "it can silently wrap / truncate" % sig, where=where)
    for k in table:
        if k not in used:
            rep.note("stale c16 table entry: %s" % k)

    # ---------------- SCALE-1
    try:
        def frac_of(adt_path):
            u, a = prog.adts[adt_path]
            ty = u.types[a["variants"][0]["fields"][0]["ty"]]["s"]
            return typenum(ty), ty
        fd, td = frac_of("statime::time::duration::Duration")
        fi, ti = frac_of("statime::datastructures::common::time_interval::TimeInterval")
        ft, tt = frac_of("statime::time::instant::Time")
        if None in (fd, fi, ft):
            raise AnchorMissing("cannot decode fractional bits of the fixed-point types: %s %s %s" % (td[:60], ti[:60], tt[:60]))
        conv = [b for b in prog.find(name="from", self_name="TimeInterval", crate="statime-lib") if "From<Duration>" in (b.trait_ref or "")]
        if len(conv) != 1:
            raise AnchorMissing("From<Duration> for TimeInterval")
        b = conv[0]
        pv = df.Prov(b)
        ret = df.strip(pv.local_tree(0))
        s = df.canon(ret, b)
        shifts = []
        ok_order = False
        for bi, si, st in mir.iter_stmts(b):
            if st["k"] == "assign" and st["r"]["k"] == "bin" and st["r"]["op"] in ("Shr", "ShrUnchecked"):
                amt = mir.op_const(st["r"]["b"])
                if amt is None:
                    p_ = mir.op_place(st["r"]["b"])
                    amt = Ranges(prog, b).op_range(st["r"]["b"])
                    amt = amt[0] if amt and amt[0] == amt[1] else None
                lty = b.ty(mir.op_place(st["r"]["a"])["ty"])["s"] if mir.op_place(st["r"]["a"]) else "?"
                shifts.append((amt, lty))
        m = re.search(r"cast<i64>\(shr\(to_bits\(nanos\(duration\)\), (\d+)\)\)", s)
        ok_order = bool(m)
        want = fd - fi
        if len(shifts) == 1 and shifts[0][0] == want and shifts[0][1] == "i128" and ok_order:
            rep.ok("SCALE-1", b.key, "Duration->TimeInterval: >> %d on i128, then narrow" % want,
                   detail={"frac(Duration)": fd, "frac(TimeInterval)": fi}, where=b.loc())
        else:
            rep.violation("SCALE-1", b.key, "Duration->TimeInterval shift",
                          "conversion is `%s` (shifts %s): the wire interval must be the signed 128-bit value shifted right by "
                          "%d - %d = %d bits (arithmetic shift = rounding toward minus infinity) BEFORE it is narrowed to 64 bits" % (
                              s[:160], shifts, fd, fi, want), where=b.loc())
        back = [x for x in prog.find(name="from", self_name="Duration", crate="statime-lib") if "From<TimeInterval>" in (x.trait_ref or "")]
        if len(back) == 1:
            s2 = df.canon_pos(df.Prov(back[0]).local_tree(0), back[0])
            if s2 == "from_fixed_nanos(arg1)" or s2 == "from_fixed_nanos(arg1.0)":
                rep.ok("SCALE-1", back[0].key, "TimeInterval->Duration widening", detail=s2, where=back[0].loc())
            else:
                rep.violation("SCALE-1", back[0].key, "TimeInterval->Duration widening",
                              "conversion is `%s`, expected the lossless to_fixed widening of the wire value" % s2, where=back[0].loc())
        else:
            rep.anchor_missing("SCALE-1", "From<TimeInterval> for Duration")
        sn = prog.one(name="subnano", self_name="Time", crate="statime-lib")
        inter = None
        for bi, t, cal in mir.iter_calls(sn, name="lossy_into"):
            inter = typenum(sn.ty(t["dest"]["ty"])["s"])
        if inter == fi:
            rep.ok("SCALE-1", sn.key, "subnano narrows to %d fractional bits" % fi, where=sn.loc())
        else:
            rep.violation("SCALE-1", sn.key, "subnano fractional bits",
                          "the sub-nanosecond part is narrowed to %s fractional bits, the wire correction field has %d" % (inter, fi),
                          where=sn.loc())
        if fd == ft:
            rep.ok("SCALE-1", "statime::time", "Time and Duration share %d fractional bits" % fd)
        else:
            rep.violation("SCALE-1", "statime::time", "Time/Duration fractional bits", "Time has %d, Duration %d fractional bits" % (ft, fd))
    except (AnchorMissing, KeyError) as e:
        rep.anchor_missing("SCALE-1", str(e))

    # ---------------- SCALE-2
    E9, E6, E3 = 1000000000, 1000000, 1000
    want = [
        ("Time", "secs", [("div", E9)]), ("Time", "subsec_nanos", [("rem", E9)]), ("Time", "from_secs", [("mul", E9)]),
        ("Time", "from_millis", [("mul", E6)]), ("Time", "from_micros", [("mul", E3)]),
        ("Duration", "secs", [("div", E9)]), ("Duration", "seconds", [("div", 1e9)]), ("Duration", "from_secs", [("mul", E9)]),
        ("Duration", "from_seconds", [("mul", E9)]), ("Duration", "from_millis", [("mul", E6)]), ("Duration", "from_micros", [("mul", E3)]),
        ("Duration", "from_log_interval", [("mul", 1e9), ("powi", 2.0)]), ("Duration", "from_interval", [("mul", 1e9)]),
        ("Interval", "as_f64", [("powi", 2.0)]),
    ]
    for (sn_, fn, reqs) in want:
        try:
            b = prog.one(name=fn, self_name=sn_, crate="statime-lib")
        except AnchorMissing as e:
            rep.anchor_missing("SCALE-2", str(e))
            continue
        pv = df.Prov(b)
        ops = set()
        for bi, t, cal in mir.iter_calls(b):
            args = [df.strip(pv.op_tree(a)) for a in t["args"]]
            for a in args:
                v = const_of(a)
                if v is not None:
                    ops.add((cal["name"], v))
        for bi, si, st in mir.iter_stmts(b):
            if st["k"] == "assign" and st["r"]["k"] == "bin":
                for o in (st["r"]["a"], st["r"]["b"]):
                    v = mir.op_const(o)
                    if v is not None and not isinstance(v, bool):
                        ops.add((st["r"]["op"].lower().replace("withoverflow", ""), v))
        for (op, c) in reqs:
            if (op, c) in ops:
                rep.ok("SCALE-2", b.key, "%s by %s" % (op, c), where=b.loc())
            else:
                rep.violation("SCALE-2", b.key, "%s by %s" % (op, c),
                              "%s::%s must %s by %s; constants found: %s" % (sn_, fn, op, c, sorted(ops, key=str)), where=b.loc())
    check_exact(rep, prog)


def check_exact(rep, prog, rid="EXACT-1"):
    """wire seconds * 10^9 in a >= 80-bit type; Time - Time on signed operands. Shared with C09 (MEAS-8)."""
    # ---------------- EXACT-1
    try:
        ft_ = [x for x in prog.find(name="from", self_name="Time", crate="statime-lib") if "From<WireTimestamp>" in (x.trait_ref or "")][0]
        muls = []
        for bi, si, st in mir.iter_stmts(ft_):
            if st["k"] == "assign" and st["r"]["k"] == "bin" and st["r"]["op"].startswith("Mul"):
                p_ = mir.op_place(st["r"]["a"]) or mir.op_place(st["r"]["b"])
                muls.append(ft_.ty(p_["ty"])["s"] if p_ else "?")
        for bi, t, cal in mir.iter_calls(ft_, name="mul"):
            muls.append("fixed:" + ft_.ty(t["dest"]["ty"])["s"][:30])
        wide = muls and all(m in ("i128", "u128") or m.startswith("fixed:fixed::FixedU128") or m.startswith("fixed:fixed::FixedI128") for m in muls)
        c9 = any(mir.op_const(o) == 1000000000 for bi, si, st in mir.iter_stmts(ft_) if st["k"] == "assign" and st["r"]["k"] == "bin"
                 for o in (st["r"]["a"], st["r"]["b"]))
        if wide and c9:
            rep.ok(rid, ft_.key, "seconds * 10^9 in %s" % muls, where=ft_.loc())
        else:
            rep.violation(rid, ft_.key, "seconds * 10^9 in a wide type",
                          "wire seconds (48 bit) * 10^9 is computed in %s (constant 10^9 present: %s): needs at least 80 bits, a 64-bit "
                          "product wraps for timestamps beyond year 2554" % (muls or "no multiplication", c9), where=ft_.loc())
        tsub = [x for x in prog.find(name="sub", self_name="Time", crate="statime-lib") if "Sub<Time>" in (x.trait_ref or "")][0]
        s3 = df.canon_pos(df.Prov(tsub).local_tree(0), tsub)
        if s3 == "sub(from_fixed_nanos(arg1.inner), from_fixed_nanos(arg2.inner))":
            rep.ok(rid, tsub.key, "Time - Time on signed 96.32 operands", detail=s3, where=tsub.loc())
        else:
            rep.violation(rid, tsub.key, "Time - Time on signed operands",
                          "the difference of two times is computed as `%s`: both operands must be converted to the signed "
                          "representation first so that a negative difference does not wrap" % s3, where=tsub.loc())
    except (AnchorMissing, IndexError) as e:
        rep.anchor_missing(rid, str(e))


def const_of(t):
    t = df.strip(t)
    if t[0] == "const" and isinstance(t[1], (int, float)) and not isinstance(t[1], bool):
        return t[1]
    if t[0] == "call" and t[2] in ("to_fixed", "from_num") and len(t[3]) == 1:
        return const_of(t[3][0])
    if t[0] == "cast":
        return const_of(t[2])
    return None
