"""C03 — no input, timing or call order makes the library panic or overflow: the panic-site ledger."""
import os, re, collections
from sa import mir, dataflow as df, conds as cnd
from sa.ranges import Ranges, ty_range, LEN_MAX
from sa.callgraph import callgraph
from sa.slices import Lens, is_slice_param, range_need
from sa.facts import AnchorMissing
from rules import fsm_common as fc

LEVEL = "other"
ANCHOR_RULE = "PANIC-U"
EXPLANATION = (
    "Panic-site ledger. Universe (re-enumerated from MIR on every run): every Assert terminator (bounds, "
    "overflow, division by zero) and every call of a callee in the panicking-callee catalogue (unwrap/expect, "
    "range indexing, copy_from_slice, split_at, ArrayVec push/remove/collect, fixed-point operators and "
    "conversions, core::time::Duration float constructors, RefCell/RwLock/Mutex acquisition, panic!/assert!/"
    "unreachable!) in every non-derive body of the library reachable in the call graph from its public API. "
    "Each site is discharged, in this order, by: A1 constant facts; A2 slice-length facts (length literals that "
    "hold on every path to the site, constant ranges, exact lengths of sub-slices); A3 integer value ranges "
    "(types, widening casts, constants, len <= isize::MAX) and relational guards; A4 typestate (the unwrapped "
    "value can only be Some/Ok: literal on every path, or the callee can only return Ok); A5 closure index of "
    "array::from_fn over an array of the same const length; A6 ArrayVec capacity counting (pushes into a fresh "
    "list never exceed CAP on any path); A7 time arithmetic whose operands are not derived from wire fields "
    "(assumption A-MAG: host timestamps < 2^63 ns); D derive/logging expansions; G the reviewed table "
    "engine/tables/c03_sites.txt (key | class | reason; class `guard:<name>` re-checks a named structural guard "
    "on every run, class `trusted` is an argument by hand). Everything else is an unproven panic site: a "
    "VIOLATION, or a KNOWN-FINDING when its exact key is listed with the failing input."
    ' Slice-length requirements are delegated to callers only as far as the crate-internal call chain goes: a PUBLIC function that passes its own slice parameter on is reported (the host may pass anything). Guard kalman_filters_in_lockstep: the running and the wander Kalman filter receive the same absorb_offset_steer / absorb_frequency_steer calls (their time bases stay equal, which is what keeps debug_assert!(time >= filter_time) true for the wander filter).'
)
NOT_DECIDED = ("panics inside host-provided Clock/Filter/provider impls; non-termination; float results (floats cannot "
               "panic); extern callees not in the catalogue are assumed non-panicking (listed in the evidence)")
ASSUMPTIONS = ["A-MAG: host-provided timestamps are < 2^63 ns and configured asymmetry/intervals are within their "
               "documented ranges, so Time/Duration arithmetic on values that do not come off the wire cannot overflow "
               "the 96/95 integer bits of the fixed-point types",
               "derive-generated code (serde, core derives) does not panic"]

WIRE_FIELDS = {"correction_field", "origin_timestamp", "precise_origin_timestamp", "receive_timestamp",
               "request_receive_timestamp", "response_origin_timestamp", "steps_removed"}
ARITH_TRAITS = ("core::ops::arith::Add", "core::ops::arith::Sub", "core::ops::arith::Mul", "core::ops::arith::Div",
                "core::ops::arith::Neg", "core::ops::arith::Rem", "core::ops::arith::AddAssign",
                "core::ops::arith::SubAssign", "core::ops::arith::MulAssign", "core::ops::arith::DivAssign")
TIME_TYPES = ("Time", "Duration", "Interval", "TimeInterval", "WireTimestamp")


FLOAT_TO_TIME = ("from_seconds",)       # f64 -> fixed point: the cast panics on NaN (always) and on overflow (debug)


def is_derive(sp):
    return any(("derive" in m or "Serialize" in m or "Deserialize" in m) for m in sp[4])


def is_log(sp):
    return any(x in m for m in sp[4] for x in ("log!", "__log", "trace!", "debug!(", "info!", "warn!", "error!",
                                               "format_args", "$crate::log"))


def catalogue(c):
    """classify a callee descriptor: returns a catalogue class or None"""
    name, key, crate = c["name"], c["key"], c["crate"]
    path = c["path"]
    if crate in ("core", "std", "alloc"):
        if name in ("unwrap", "expect", "unwrap_err", "expect_err") and ("option::" in path or "result::" in path):
            return "unwrap"
        if name in ("index", "index_mut") and c.get("trait", "").startswith("core::ops::index::"):
            return "index"
        if name in ("copy_from_slice", "clone_from_slice"):
            return "copy_from_slice"
        if name in ("split_at", "split_at_mut"):
            return "split_at"
        if name in ("chunks_exact", "chunks", "windows"):
            return "chunks"
        if name in ("panic", "panic_fmt", "assert_failed", "panic_const", "unreachable_display", "panic_explicit",
                    "unwrap_failed", "expect_failed") or "panicking" in path:
            return "panic"
        if name in ("from_secs_f64", "from_secs_f32", "mul_f64", "mul_f32", "div_f64") and "time::" in path:
            return "core_duration_float"
        if name in ("borrow", "borrow_mut") and "cell::" in path:
            return "lock"
        if name in ("read", "write", "lock") and "sync::" in path:
            return "lock"
        if name == "clamp" and "f64" in path:
            return "f64_clamp"
        return None
    if crate == "arrayvec":
        if name in ("push", "insert", "extend", "extend_from_slice", "from_iter", "push_str"):
            return "arrayvec_push"
        if name in ("remove", "swap_remove", "drain", "truncate_panic"):
            return "arrayvec_remove"
        return None
    if crate in ("fixed", "az"):
        if name in ("to_num", "to_fixed", "from_num", "lossy_into", "az", "abs", "unsigned_abs", "from_fixed",
                    "checked_to_fixed", "unwrapped_to_fixed", "lossless_try_into"):
            return "fixed_conv"
        return None
    return None


def is_collect_into_arrayvec(body, t, c):
    if c["name"] not in ("collect", "from_iter"):
        return False
    rt = body.ty(t["dest"]["ty"])["s"]
    return "ArrayVec<" in rt


def fixed_operator(body, c):
    if c.get("trait") in ARITH_TRAITS and "self_ty" in c:
        st = body.ty(c["self_ty"])["s"]
        if "fixed::" in st or "Fixed" in st:
            return True
    return False


def time_operator(body, c):
    """call of one of statime's own operator impls on its time types (resolved into the workspace)"""
    if c.get("trait") in ARITH_TRAITS and "self_ty" in c:
        st = body.ty(c["self_ty"])
        if st["k"] == "adt" and st["name"] in TIME_TYPES and st["path"].startswith("statime::"):
            return True
    return False


def in_time_wrapper(b):
    return (b.self_name in TIME_TYPES) and (b.trait in ARITH_TRAITS or (b.trait or "").startswith("core::convert::"))


class Ledger:
    def __init__(self, ctx, prog, cfgname):
        self.ctx = ctx
        self.prog = prog
        self.cfgname = cfgname
        self.cg = callgraph(prog)
        self.const_returns = {}
        for b in prog.bodies.values():
            if b.unit.name != "statime-lib" or b.is_closure or b.argc > 1:
                continue
            d = df.defs(b)
            ds = d.whole.get(0, [])
            if len(ds) == 1 and ds[0][2][0] == "assign" and ds[0][2][1]["k"] == "use":
                v = mir.op_const(ds[0][2][1]["op"])
                if isinstance(v, int) and not isinstance(v, bool):
                    self.const_returns[b.j["key"]] = v
        self.ok_only = {}
        self.sites = []
        self.stats = collections.Counter()
        self.extern_unlisted = collections.Counter()

    # ---- universe
    def bodies(self):
        prog = self.prog
        roots = [b for b in prog.bodies.values() if b.unit.name == "statime-lib" and not b.is_test()
                 and b.j.get("reachable") and not b.is_closure]
        order, seen = self.cg.reachable(roots)
        out = [n for n in order if not isinstance(n, tuple) and n.unit.name == "statime-lib" and not n.is_test()]
        return roots, out

    def returns_only(self, callee):
        """set of Result/Option variants a workspace function can return, or None if unknown"""
        k = callee.key
        if k in self.ok_only:
            return self.ok_only[k]
        self.ok_only[k] = None
        d = df.defs(callee)
        vs = set()
        unknown = False
        for (bi, si, dd) in d.whole.get(0, []):
            if dd[0] == "assign" and dd[1]["k"] == "agg" and dd[1].get("ak") == "adt":
                vs.add(dd[1]["variant"])
            elif dd[0] == "assign" and dd[1]["k"] == "use" and dd[1]["op"]["k"] == "const" and \
                    re.search(r"\b(Ok|Err|Some|None)\b", dd[1]["op"].get("s", "")):
                vs.add(re.search(r"\b(Ok|Err|Some|None)\b", dd[1]["op"]["s"]).group(1))
            elif dd[0] == "call":
                c = mir.callee_of(dd[1])
                if c is not None and c["name"] == "from_residual":
                    vs.add("Err")
                    vs.add("None")
                else:
                    unknown = True
            else:
                unknown = True
        if 0 in d.partial:
            unknown = True
        res = None if unknown else vs
        self.ok_only[k] = res
        return res

    def enumerate(self):
        roots, bodies = self.bodies()
        self.n_roots, self.n_bodies = len(roots), len(bodies)
        for b in bodies:
            derive_body = (b.trait or "").startswith("serde") or "_::" in b.key or "__" in (b.self_name or "")
            if derive_body:
                self.stats["D:derive body"] += sum(1 for _ in mir.iter_terms(b, "assert"))
                continue
            c = None
            pv = None
            rg = None
            for bi, t in mir.iter_terms(b):
                if b.blocks[bi]["cleanup"]:
                    continue
                k = t["k"]
                if k not in ("assert", "call"):
                    continue
                sp = t["sp"]
                if is_derive(sp):
                    self.stats["D:derive expansion"] += 1
                    continue
                if k == "call":
                    cal = mir.callee_of(t)
                    if cal is None:
                        continue
                    cls = catalogue(cal)
                    if cls is None and is_collect_into_arrayvec(b, t, cal):
                        cls = "arrayvec_collect"
                    if cls is None and fixed_operator(b, cal):
                        cls = "fixed_op"
                    if cls is None and time_operator(b, cal) and not in_time_wrapper(b):
                        cls = "time_op"
                    if cls is None and cal["name"] in FLOAT_TO_TIME and "time::duration::<Duration>::" in cal["key"] \
                            and not in_time_wrapper(b) and b.self_name not in TIME_TYPES:
                        a0 = mir.op_const(t["args"][0]) if t["args"] else None
                        if a0 is None:
                            cls = "float_to_time"
                    if cls is None:
                        if cal["crate"] != "statime" and not is_log(sp):
                            self.extern_unlisted[cal["path"].split("<")[0] + "::" + cal["name"]] += 1
                        continue
                    if is_log(sp) and cls not in ("panic",):
                        self.stats["D:logging expansion"] += 1
                        continue
                else:
                    cls = "assert"
                if c is None:
                    c = cnd.conds(self.prog, b)
                    pv = c.prov
                    rg = Ranges(self.prog, b, self.const_returns)
                self.sites.append(self.make_site(b, bi, t, cls, c, pv, rg))
        self.length_pass()

    # ---- A-LEN with interprocedural requirements
    def length_site(self, s, lens):
        """(subject tree, need) for a slice-length site, or None"""
        b, t, cls = s["body"], s["t"], s["cls"]
        pv = lens.pv
        if cls == "assert" and t["msg"]["kind"] == "BoundsCheck":
            m = t["msg"]
            lt = df.strip(pv.op_tree(m["len"]))
            idx = Ranges(self.prog, b, self.const_returns).op_range(m["index"])
            if idx is None or idx[1] > 10 ** 9:
                return None
            if lt[0] == "un" and lt[1] == "PtrMetadata":
                return (lt[2], idx[1] + 1)
            if lt[0] == "call" and lt[2] == "len":
                return (lt[3][0], idx[1] + 1)
            return None
        if cls == "index":
            rn = range_need(pv.op_tree(t["args"][1]))
            if rn is None:
                return None
            return (pv.op_tree(t["args"][0]), rn[1])
        if cls == "split_at":
            k = df._num(pv.op_tree(t["args"][1]))
            if k is None:
                return None
            return (pv.op_tree(t["args"][0]), int(k))
        return None

    def length_pass(self):
        lenses = {}
        req = {}            # body key -> {param: need}
        delegated = []
        for s in self.sites:
            if s["discharge"] or s["cls"] not in ("assert", "index", "split_at", "copy_from_slice"):
                continue
            b = s["body"]
            lens = lenses.setdefault(b.key, Lens(self.prog, b))
            if s["cls"] == "copy_from_slice":
                a = lens.have_operand(s["bb"], s["t"]["args"][0])
                c2 = lens.have_operand(s["bb"], s["t"]["args"][1])
                if a[1] is not None and a[1] == c2[1]:
                    s["discharge"] = "A2 both slices have exact length %d" % a[1]
                continue
            ls = self.length_site(s, lens)
            if ls is None:
                continue
            subj, need = ls
            have = lens.have(s["bb"], subj)
            # arrays
            if s["cls"] in ("index", "split_at"):
                ho = lens.have_operand(s["bb"], s["t"]["args"][0])
                have = (max(have[0], ho[0]), have[1] if have[1] is not None else ho[1])
            if have[0] >= need:
                s["discharge"] = "A2 needs %d bytes, length >= %d proven on every path" % (need, have[0])
                continue
            p = is_slice_param(b, subj)
            if p is not None:
                req.setdefault(b.key, {})
                req[b.key][p] = max(req[b.key].get(p, 0), need)
                delegated.append((s, p, need))
        # propagate requirements to call sites
        unsat = []
        for _ in range(8):
            changed = False
            unsat = []
            for b in self.prog.bodies.values():
                if b.unit.name != "statime-lib" or b.is_test():
                    continue
                lens = None
                for bi, t, cal in mir.iter_calls(b):
                    callee = self.cg.lookup(b.unit, cal.get("resolved") or cal["key"])
                    if callee is None or callee.key not in req:
                        continue
                    for p, need in req[callee.key].items():
                        if p - 1 >= len(t["args"]):
                            continue
                        lens = lens or lenses.setdefault(b.key, Lens(self.prog, b))
                        have = lens.have_operand(bi, t["args"][p - 1])
                        if have[0] >= need:
                            continue
                        q = is_slice_param(b, lens.pv.op_tree(t["args"][p - 1]))
                        if q is not None and b.j.get("exported") and b.j.get("pub") and not b.is_closure and \
                                "::fuzz::" not in b.key:       # the feature-gated fuzzing shims are not host API
                            # the caller is public API: its own parameter is whatever the host passes - the requirement
                            # cannot be delegated any further
                            unsat.append((b, bi, t, callee, p, need, have[0]))
                        elif q is not None:
                            cur = req.setdefault(b.key, {}).get(q, 0)
                            if cur < need:
                                req[b.key][q] = need
                                changed = True
                        else:
                            unsat.append((b, bi, t, callee, p, need, have[0]))
            if not changed:
                break
        self.req = req
        for (s, p, need) in delegated:
            b = s["body"]
            k = req.get(b.key, {}).get(p, need)
            if b.j.get("exported") and not b.is_closure and b.j.get("pub"):
                s["discharge"] = None
                s["note"] = "requirement len >= %d reaches the public API" % k
                continue
            s["discharge"] = "A2 delegated: every caller passes a slice of length >= %d (REQ)" % k
        seen = set()
        for (b, bi, t, callee, p, need, have) in unsat:
            kk = (b.key, bi, p)
            if kk in seen:
                continue
            seen.add(kk)
            c = cnd.conds(self.prog, b)
            sig = "call:%s(arg%d needs len>=%d, proven %d)" % (callee.name, p, need, have)
            self.sites.append({"body": b, "bb": bi, "t": t, "cls": "slice_arg", "sig": sig, "line": t["sp"][1],
                               "discharge": None})

    def make_site(self, b, bi, t, cls, c, pv, rg):
        if cls == "assert":
            m = t["msg"]
            if m["kind"] == "BoundsCheck":
                sig = "Assert:BoundsCheck(index=%s)" % short(df.canon(pv.op_tree(m["index"]), b))
            elif m["kind"] == "Overflow":
                sig = "Assert:Overflow(%s,%s,%s)" % (m["op"], short(df.canon(pv.op_tree(m["a"]), b)),
                                                   short(df.canon(pv.op_tree(m["b"]), b)))
            else:
                sig = "Assert:%s(%s)" % (m["kind"], short(df.canon(pv.op_tree(m["a"]), b)) if "a" in m else "")
        else:
            cal = mir.callee_of(t)
            if cal["name"] == "assert_failed":
                # debug_assert_eq!/assert_eq!: the compared values are spelled by their outermost in-workspace call only
                # (`time_from_underlying(…)`): the trees are position-insensitive, so `f(self.x)` after `self.x = v` and
                # `f(v)` - the same value - would otherwise be two different keys
                def sk(a):
                    tr_ = df.strip(pv.op_tree(a))
                    if tr_[0] == "call" and str(tr_[1]).startswith("statime") and tr_[3]:
                        return "%s(…)" % tr_[2]
                    return short(df.canon(tr_, b))
                sig = "call:%s(%s)" % (cal["name"], ", ".join(sk(a) for a in t["args"]))
            else:
                sig = "call:%s(%s)" % (cal["name"], ", ".join(short(df.canon(pv.op_tree(a), b)) for a in t["args"]))
        if cls == "panic" and getattr(b, "renames", None):
            # assertion messages quote source text: spell renamed locals the pinned way (see facts.pin_names)
            for cur_, pin_ in b.renames.items():
                sig = re.sub(r"\b%s\b" % re.escape(cur_), pin_, sig)
        site = {"body": b, "bb": bi, "t": t, "cls": cls, "sig": sig, "line": t["sp"][1]}
        site["discharge"] = self.discharge(site, c, pv, rg)
        return site

    # ---- discharge
    def discharge(self, s, c, pv, rg):
        b, t, cls, bi = s["body"], s["t"], s["cls"], s["bb"]
        lits = None

        def literals():
            nonlocal lits
            if lits is None:
                lits = c.must_literals(bi)
            return lits

        def len_lower_bound(len_tree_s):
            """largest K such that a literal `len(X) >= K` holds for the slice whose length expression is len_tree_s"""
            best = 0
            len_tree_s = norm_len(len_tree_s)
            for l in literals():
                if l[0] != "cmp":
                    continue
                a, bb_ = norm_len(df.canon(l[2], b)), df.strip(l[3])
                if bb_[0] != "const":
                    kv_ = df._num(bb_)
                    if kv_ is not None and kv_.denominator == 1:
                        bb_ = ("const", int(kv_))
                if a != len_tree_s or bb_[0] != "const" or not isinstance(bb_[1], int):
                    continue
                if l[1] == "ge":
                    best = max(best, bb_[1])
                elif l[1] == "gt":
                    best = max(best, bb_[1] + 1)
                elif l[1] == "eq":
                    best = max(best, bb_[1])
            return best

        if cls == "assert":
            m = t["msg"]
            kind = m["kind"]
            if kind == "BoundsCheck":
                rl, ri = rg.op_range(m["len"]), rg.op_range(m["index"])
                if rl and ri and ri[1] < rl[0]:
                    return "A1 constant index < constant length"
                lt = df.canon(pv.op_tree(m["len"]), b)
                k = len_lower_bound(lt)
                if ri and ri[1] < k:
                    return "A2 index <= %d < proven length >= %d" % (ri[1], k)
                it_s = df.canon(pv.op_tree(m["index"]), b)
                for l in literals():
                    if l[0] == "cmp" and l[1] == "lt" and df.canon(l[2], b) == it_s and df.canon(l[3], b) == lt:
                        return "A3 guarded by `%s < %s` on every path" % (short(it_s), short(lt))
                    if l[0] == "cmp" and l[1] == "gt" and df.canon(l[3], b) == it_s and df.canon(l[2], b) == lt:
                        return "A3 guarded by `%s > %s` on every path" % (short(lt), short(it_s))
                # A5 index driven by array::from_fn / a 0..P range over the same const-generic length P
                lenop = m["len"]
                if lenop["k"] == "const" and "param" in lenop:
                    bound = index_bound(self.prog, b, pv.op_tree(m["index"]))
                    if bound == lenop["param"]:
                        return "A5 index ranges over 0..%s (array::from_fn / range map) and the array has length %s" % (bound, bound)
                return None
            if kind == "Overflow":
                op = m["op"]
                ra, rb = rg.op_range(m["a"]), rg.op_range(m["b"])
                tr = ty_range(b.ty(mir.op_place(m["a"])["ty"])["s"]) if mir.op_place(m["a"]) else (
                    ty_range(b.ty(m["a"]["ty"])["s"]) if "ty" in m["a"] else None)
                if tr is None and mir.op_place(m["b"]):
                    tr = ty_range(b.ty(mir.op_place(m["b"])["ty"])["s"])
                if op in ("Shl", "Shr"):
                    bits = {2 ** 8 - 1: 8, 2 ** 16 - 1: 16, 2 ** 32 - 1: 32, 2 ** 64 - 1: 64, 2 ** 128 - 1: 128,
                            2 ** 7 - 1: 8, 2 ** 15 - 1: 16, 2 ** 31 - 1: 32, 2 ** 63 - 1: 64, 2 ** 127 - 1: 128}.get(tr[1] if tr else None)
                    if rb and bits and 0 <= rb[0] and rb[1] < bits:
                        return "A1 shift amount < bit width"
                    return None
                if ra and rb and tr:
                    if op == "Add" and ra[1] + rb[1] <= tr[1] and ra[0] + rb[0] >= tr[0]:
                        return "A3 %s+%s fits %s" % (rstr(ra), rstr(rb), rstr(tr))
                    if op == "Mul":
                        cs = [ra[0] * rb[0], ra[0] * rb[1], ra[1] * rb[0], ra[1] * rb[1]]
                        if min(cs) >= tr[0] and max(cs) <= tr[1]:
                            return "A3 product fits"
                    if op == "Sub" and ra[0] - rb[1] >= tr[0] and ra[1] - rb[0] <= tr[1]:
                        return "A3 difference fits"
                if op == "Sub":
                    ta, tb = df.canon(pv.op_tree(m["a"]), b), df.canon(pv.op_tree(m["b"]), b)
                    for l in literals():
                        if l[0] == "cmp" and l[1] in ("gt", "ge"):
                            if df.canon(l[2], b) == ta and df.canon(l[3], b) == tb:
                                return "A3 guarded by `%s %s %s` on every path" % (short(ta), l[1], short(tb))
                        if l[0] == "cmp" and l[1] in ("lt", "le"):
                            if df.canon(l[3], b) == ta and df.canon(l[2], b) == tb:
                                return "A3 guarded by `%s %s %s` on every path" % (short(tb), l[1], short(ta))
                    # len - k with proven len >= k
                    k = len_lower_bound(ta)
                    if rb and rb[1] <= k:
                        return "A3 len >= %d on every path" % k
                return None
            if kind in ("DivisionByZero", "RemainderByZero"):
                ra = rg.op_range(m["a"])
                if ra and (ra[0] > 0 or ra[1] < 0):
                    return "A1 divisor is a non-zero constant"
                return None
            if kind == "OverflowNeg":
                ra = rg.op_range(m["a"])
                tr = ty_range(b.ty(mir.op_place(m["a"])["ty"])["s"]) if mir.op_place(m["a"]) else None
                if ra and tr and ra[0] > tr[0]:
                    return "A3 operand cannot be MIN"
                return None
            return None

        cal = mir.callee_of(t)
        if cls == "unwrap":
            recv = pv.op_tree(t["args"][0])
            rs = df.strip(recv)
            want = {"Some"} if "option::" in cal["path"] else {"Ok"}
            for l in literals():
                if l[0] == "variant" and set(l[2]) <= want and df.canon(l[1], b) == df.canon(rs, b):
                    return "A4 receiver is %s on every path" % "/".join(want)
            if rs[0] == "call" and rs[2] in ("lock", "read", "write", "borrow", "borrow_mut"):
                return "G-lock unwrap of a lock acquisition: poisoning needs a panic inside a critical section, which this " \
                       "ledger excludes; re-entrancy is excluded by C17"
            if rs[0] == "call":
                if rs[2] in ("try_into", "try_from"):
                    from sa.slices import Lens
                    hv = Lens(self.prog, b).have(bi, rs[3][0])
                    dst = b.ty(t["dest"]["ty"])
                    if dst["k"] == "array" and hv[1] is not None and dst.get("len") == hv[1]:
                        return "A2 try_into of a slice of exact length %d" % dst["len"]
                if rs[2] in ("try_into", "try_from") and rs[3]:
                    # an item of a chunks_exact(K) iterator (possibly truncated by take) has exactly K bytes
                    src_ = df.strip(rs[3][0])
                    while src_[0] == "field":
                        src_ = df.strip(src_[1])
                    dst = b.ty(t["dest"]["ty"])
                    if src_[0] == "call" and src_[2] == "next" and ("::<Take as " in src_[1] or "::<ChunksExact as " in src_[1]) \
                            and dst["k"] == "array":
                        ks = [rg.op_range(t2["args"][1]) for bi2, t2, c2 in mir.iter_calls(b, name="chunks_exact")]
                        nexts = [df.strip(pv.call_tree(t2))[1] for bi2, t2, c2 in mir.iter_calls(b, name="next")]
                        if ks and all(k_ is not None and k_[0] == k_[1] == dst.get("len") for k_ in ks) and nexts and \
                                all("::<Take as " in n_ or "::<ChunksExact as " in n_ for n_ in nexts):
                            return "A2 item of a chunks_exact(%d) iterator (every chunks_exact of this body has that size): " \
                                   "exactly %d bytes" % (ks[0][0], ks[0][0])
                if rs[2] == "try_into" and exact_len(b, pv, rs[3][0]) is not None:
                    dst = b.ty(t["dest"]["ty"])
                    if dst["k"] == "array" and dst.get("len") == exact_len(b, pv, rs[3][0]):
                        return "A2 try_into of a slice of exact length %d" % dst["len"]
                callee = self.cg.lookup(b.unit, rs[1])
                if callee is not None:
                    ro = self.returns_only(callee)
                    if ro is not None and ro and ro <= want:
                        return "A4 callee %s can only return %s" % (callee.name, "/".join(sorted(ro)))
            return None
        if cls == "index":
            base = pv.op_tree(t["args"][0])
            rng_t = df.strip(pv.op_tree(t["args"][1]))
            blen = static_len(b, t["args"][0])
            need = None
            if rng_t[0] == "agg" and rng_t[1] in ("Range", "RangeTo", "RangeFrom", "RangeInclusive", "RangeToInclusive"):
                f = dict(rng_t[3])
                st = df._num(f["start"]) if "start" in f else 0
                en = df._num(f["end"]) if "end" in f else None
                if rng_t[1] == "RangeFrom":
                    need = int(st) if st is not None else None
                elif en is not None and st is not None and st <= en:
                    need = int(en) + (1 if "Inclusive" in rng_t[1] else 0)
                if need is not None:
                    if blen is not None and need <= blen:
                        return "A2 constant range within array length %d" % blen
                    lt = "len(%s)" % df.canon(base, b)
                    ks = [len_lower_bound(x) for x in (lt, "ptrmetadata(%s)" % df.canon(base, b))]
                    ex = exact_len(b, pv, t["args"][0])
                    if ex is not None and need <= ex:
                        return "A2 range end %d <= exact length %d of the sub-slice" % (need, ex)
                    if max(ks) >= need:
                        return "A2 range end %d <= proven length >= %d" % (need, max(ks))
            elif rng_t[0] == "agg" and rng_t[1] == "RangeFull":
                return "A1 full range"
            if rng_t[0] == "agg" and rng_t[1] == "RangeTo":
                en = df.strip(dict(rng_t[3]).get("end", ("unknown",)))
                # `buf[..n]` where n is the Ok payload of Message::serialize(.., &mut buf): serialize split that very buffer
                inner = en
                while inner[0] in ("field",) or (inner[0] == "call" and inner[2] in ("branch", "unwrap")):
                    inner = df.strip(inner[1] if inner[0] == "field" else inner[3][0])
                if inner[0] == "call" and inner[2] == "serialize" and "<Message>::serialize" in inner[1] and len(inner[3]) == 2:
                    if df.canon(df.strip(inner[3][1]), b) == df.canon(df.strip(base), b):
                        return "A8 length returned by Message::serialize for this very buffer (it was split at that length)"
            return None
        if cls == "copy_from_slice":
            a = exact_len(b, pv, t["args"][0])
            c2 = exact_len(b, pv, t["args"][1])
            if a is not None and a == c2:
                return "A2 both slices have exact length %d" % a
            return None
        if cls == "chunks":
            r = rg.op_range(t["args"][1])
            if r and r[0] > 0:
                return "A1 chunk size is a non-zero constant"
            return None
        if cls == "arrayvec_push":
            return fresh_list_push(b, pv, t, c)
        if cls == "arrayvec_remove" and mir.callee_of(t)["name"] == "remove" and len(t["args"]) == 2:
            r_ = remove_last(b, pv, t, c)
            if r_:
                return r_
        if cls == "arrayvec_collect":
            src = df.canon(pv.call_tree(t), b)
            rt = b.ty(t["dest"]["ty"])
            cap = None
            for a in rt.get("args", []):
                if isinstance(a, dict) and a.get("v") is not None:
                    cap = a["v"]
            m2 = re.search(r"take\((.*?), (capacity\([^)]*\)|\d+)\)", src)
            if m2 and cap is not None:
                k = m2.group(2)
                if k.startswith("capacity(") or int(k) <= cap:
                    return "A6 collect of an iterator truncated by take(%s) into an ArrayVec of capacity %d" % (k, cap)
            return None
        if cls == "core_duration_float" and mir.callee_of(t)["name"] in ("mul_f64", "mul_f32") and len(t["args"]) == 2:
            # Duration::mul_f64 panics when the factor is negative or not finite (or the product overflows): a factor
            # that is a product of non-negative constants, U(0,1) samples, 1 + U(0,1) and unsigned integers is finite
            # and >= 0 structurally; overflow of the product is a magnitude question (A-MAG)
            def nonneg(x):
                x = df.strip(x)
                while x[0] == "cast":
                    src = x[2]
                    x = df.strip(src)
                if x[0] == "const":
                    return isinstance(x[1], (int, float)) and not isinstance(x[1], bool) and x[1] >= 0 and x[1] == x[1] \
                        and x[1] != float("inf")
                if x[0] == "bin" and x[1] in ("Mul", "MulWithOverflow"):
                    return nonneg(x[2]) and nonneg(x[3])
                if x[0] == "call" and x[2] == "mul" and len(x[3]) == 2:
                    return nonneg(x[3][0]) and nonneg(x[3][1])
                if x[0] == "bin" and x[1] in ("Add", "AddWithOverflow"):
                    return nonneg(x[2]) and nonneg(x[3])
                if x[0] == "call" and x[2] == "add" and len(x[3]) == 2:
                    return nonneg(x[3][0]) and nonneg(x[3][1])
                if x[0] == "call" and x[2] == "sample" and len(x[3]) == 2 and "Open01" in df.canon(x[3][1], b):
                    return True
                if x[0] == "path":
                    # an unsigned integer field/parameter (converted to f64 by the cast peeled above)
                    return False
                return False

            def factor_ok(x):
                x0_ = df.strip(x)
                if x0_[0] == "cast":
                    inner = df.strip(x0_[2])
                    # cast<f64>(cast<u32>(u8 field)) and the like: an unsigned integer is >= 0 and finite
                    ty_ = x0_[3] if len(x0_) > 3 else ""
                    j = inner
                    while j[0] == "cast":
                        ty_ = j[3] if len(j) > 3 else ty_
                        j = df.strip(j[2])
                    if ty_.startswith("u") and j[0] == "path":
                        return True
                    # a single int -> float conversion of an unsigned value
                    srcs = [y[4] for y in (x0_,) if len(y) > 4]
                    if j[0] == "path" and srcs and srcs[0].startswith("u"):
                        return True
                if x0_[0] == "bin" and x0_[1] in ("Mul", "MulWithOverflow"):
                    return factor_ok(x0_[2]) and factor_ok(x0_[3])
                if x0_[0] == "call" and x0_[2] == "mul" and len(x0_[3]) == 2:
                    return factor_ok(x0_[3][0]) and factor_ok(x0_[3][1])
                return nonneg(x0_)
            if factor_ok(pv.op_tree(t["args"][1])):
                return "A9 core Duration times a factor that is structurally finite and >= 0 (constants, U(0,1) samples, unsigned integers); magnitude: A-MAG"
        if cls == "f64_clamp" and len(t["args"]) == 3:
            lo_, hi_ = df.canon(pv.op_tree(t["args"][1]), b), df.canon(pv.op_tree(t["args"][2]), b)
            if lo_ == "neg(%s)" % hi_ and re.search(r"(^|\.)config\.\w+$", hi_):
                return "A11 f64::clamp(x, -B, B) with one configuration value B: panics only for a negative or NaN B " \
                       "(assumption A-CFG: configured bounds are non-negative numbers)"
        if cls == "float_to_time":
            x0 = df.strip(pv.op_tree(t["args"][0]))
            if x0[0] == "call" and x0[2] == "powi" and len(x0[3]) == 2 and df.strip(x0[3][0]) == ("const", 2.0):
                # 2^n seconds: finite, and fits the I96F32 nanosecond representation (2^95 ns ~ 2^65 s) when n <= 64
                r_ = None
                ca = mir.callee_of(t)
                # the exponent operand: find the powi call that defines the argument and take the range of its 2nd operand
                p0 = mir.op_place(t["args"][0])
                if p0 is not None and not p0["proj"]:
                    for (dbi, dsi, dd) in c.d.whole.get(p0["l"], []):
                        if dd[0] == "call":
                            r_ = rg.op_range(dd[1]["args"][1])
                if (r_ is None or r_[1] > 64) and b.is_closure:
                    # exponent captured from the enclosing function: take its range there
                    e_ = df.strip(x0[3][1])
                    while e_[0] == "cast":
                        e_ = df.strip(e_[2])
                    m_ = re.fullmatch(r"env\._ref__(\w+)", df.canon(e_, b))
                    par = self.cg.lookup(b.unit, b.parent) if m_ else None
                    if par is not None:
                        for li, ld in enumerate(par.locals):
                            if par.local_name(li) == m_.group(1):
                                r_ = Ranges(self.prog, par, self.const_returns).place_range({"l": li, "proj": [], "ty": ld["ty"]})
                if r_ is not None and r_[1] <= 64:
                    return "A8 2^n seconds with n in %s: finite and within the fixed-point range" % rstr(r_)
            x = df.strip(pv.op_tree(t["args"][0]))
            while (x[0] == "un" and x[1] == "Neg") or (x[0] == "call" and x[2] == "neg" and len(x[3]) == 1):
                x = df.strip(x[2] if x[0] == "un" else x[3][0])
            cx = df.canon(x, b)
            for l in literals():
                if l[0] == "bool" and l[2] is True:
                    tr = df.strip(l[1])
                    if tr[0] == "call" and tr[2] == "is_finite" and len(tr[3]) == 1:
                        y = df.strip(tr[3][0])
                        while (y[0] == "un" and y[1] == "Neg") or (y[0] == "call" and y[2] == "neg" and len(y[3]) == 1):
                            y = df.strip(y[2] if y[0] == "un" else y[3][0])
                        if df.canon(y, b) == cx:
                            return "A8 float -> Duration of a value checked with is_finite() on every path (magnitude: A-MAG)"
            return None
        if cls == "time_op":
            wire = []
            for a in t["args"]:
                for lf in df.leaves(pv.op_tree(a)):
                    if lf[0] == "path" and any(x in WIRE_FIELDS for x in lf[2]):
                        wire.append(".".join(x for x in lf[2] if x != "*"))
            if not wire:
                return "A7 time arithmetic on values that do not come off the wire (assumption A-MAG)"
            s["wire"] = sorted(set(wire))
            return None
        if cls == "fixed_op" or cls == "fixed_conv":
            if in_time_wrapper(b) or (b.self_name in TIME_TYPES):
                return "A7 inside a time-type operator/conversion wrapper: the obligation is checked at its callers (time_op sites)"
            return None
        if cls == "lock":
            return "G-lock RefCell/RwLock/Mutex acquisition: never re-entrant (C17 LOCK-1..5) — poisoning needs a panic " \
                   "inside a critical section, which is what this ledger excludes"
        return None

    # ---- report
    def report(self, table):
        rep = self.ctx.report
        tag = "" if self.cfgname == "default" else "[%s]" % self.cfgname
        used = set()
        ordn = collections.Counter()
        guards_needed = set()
        for s in self.sites:
            b = s["body"]
            s["sig"] = anon(s["sig"])
            base = "%s|%s" % (b.key, s["sig"])
            n = ordn[base]
            ordn[base] += 1
            key = "%s|#%d" % (base, n)
            where = fc.where(b, s["line"])
            if s["discharge"]:
                self.stats[s["discharge"].split(" ")[0]] += 1
                rep.ok("PANIC-A", b.key + tag, s["sig"], detail=s["discharge"], where=where)
                continue
            ent = table.get(key)
            if ent is not None:
                used.add(key)
                cls, reason = ent
                if cls.startswith("finding"):
                    if tag and key in self.default_findings:
                        # the same source site was already reported by the default configuration
                        self.stats["F same-site-as-default"] += 1
                        continue
                    if not tag:
                        self.default_findings.add(key)
                    rep.violation("PANIC-F", b.key + tag, s["sig"], "reachable panic: %s" % reason, where=where)
                    # make the ordinal of the violation key equal to the ledger ordinal
                elif cls.startswith("guard:"):
                    guards_needed.add(cls[6:])
                    self.stats["G guard:" + cls[6:]] += 1
                    rep.ok("PANIC-G", b.key + tag, s["sig"], detail="guard %s: %s" % (cls[6:], reason), where=where)
                else:
                    self.stats["G trusted"] += 1
                    rep.ok("PANIC-G", b.key + tag, s["sig"], detail="reviewed: %s" % reason, where=where, nontrivial=False)
            else:
                extra = (" (operands derived from wire fields %s)" % s["wire"]) if s.get("wire") else ""
                rep.violation("PANIC-U", b.key + tag, s["sig"],
                              "unproven panic site (%s)%s: no discharge rule applies and the site is not in the reviewed "
                              "table" % (s["cls"], extra), where=where)
        stale = [k for k in table if k not in used and not k.startswith("#")]
        return guards_needed, stale


def norm_len(s):
    return s.replace("ptrmetadata(", "len(").replace("cast<&[u8]>", "").replace("cast<&mut [u8]>", "")


def short(s, n=70):
    s = s.replace("self.", "")
    return s if len(s) <= n else s[:n] + "…"


def rstr(r):
    def f(x):
        return str(x) if abs(x) < 10 ** 6 else "2^%d" % (abs(x).bit_length()) if x > 0 else "-2^%d" % (abs(x).bit_length())
    return "[%s,%s]" % (f(r[0]), f(r[1]))


def static_len(b, op):
    p = mir.op_place(op)
    if p is None:
        return None
    t = b.ty(p["ty"])
    while t["k"] == "ref":
        t = b.ty(t["to"])
    if t["k"] == "array" and isinstance(t.get("len"), int):
        return t["len"]
    return None


def exact_len(b, pv, op):
    """exact length of the slice/array denoted by an operand or tree, if statically known"""
    if isinstance(op, dict):
        sl = static_len(b, op)
        if sl is not None:
            return sl
        sl = unsized_array_len(b, op)
        if sl is not None:
            return sl
        t = pv.op_tree(op)
    else:
        t = op
    t = df.strip(t)
    if t[0] == "call" and t[2] in ("index", "index_mut") and len(t[3]) == 2:
        r = df.strip(t[3][1])
        if r[0] == "agg" and r[1] in ("Range", "RangeTo"):
            f = dict(r[3])
            st = df._num(f["start"]) if "start" in f else 0
            en = df._num(f["end"]) if "end" in f else None
            if st is not None and en is not None and en >= st:
                return int(en - st)
    if t[0] == "call" and t[2] in ("to_be_bytes", "to_le_bytes", "to_ne_bytes"):
        s = df.tree_str(t)
        return None
    if t[0] == "agg" and t[1] == "array":
        return len(t[3])
    return None


def unsized_array_len(b, op, depth=0):
    """operand is `&[T]` obtained by unsizing `&[T; N]`: return N"""
    p = mir.op_place(op)
    if p is None or p["proj"] or depth > 6:
        return None
    d = df.defs(b)
    ds = d.whole.get(p["l"], [])
    if len(ds) != 1 or ds[0][2][0] != "assign":
        return None
    r = ds[0][2][1]
    if r["k"] == "cast" and "Unsize" in r["ck"]:
        sp = mir.op_place(r["op"])
        if sp is not None:
            t = b.ty(sp["ty"])
            while t["k"] == "ref":
                t = b.ty(t["to"])
            if t["k"] == "array" and isinstance(t.get("len"), int):
                return t["len"]
        return None
    if r["k"] == "use":
        return unsized_array_len(b, r["op"], depth + 1)
    if r["k"] == "ref" and not r["p"]["proj"]:
        # &*x
        return None
    return None


def index_bound(prog, body, tree, depth=0):
    """name of the const parameter P such that the index value is < P because it is the argument of a closure
    passed to core::array::from_fn::<_, P, _> or mapped over Range{0..P} (possibly captured by inner closures)"""
    t = df.strip(tree)
    if depth > 4 or t[0] != "path":
        return None
    if t[1] == ("env",):
        names = [x for x in t[2] if x != "*"]
        if not names or not body.is_closure:
            return None
        cap = names[0]
        var = cap[len("_ref__"):] if cap.startswith("_ref__") else cap
        par, pbb = fc.closure_site(prog, body)
        if par is None:
            return None
        for l in range(1, len(par.locals)):
            if par.local_name(l) == var:
                return index_bound(prog, par, ("path", ("arg", l) if l <= par.argc else ("local", l), ()), depth + 1)
        return None
    if t[1][0] == "arg" and body.is_closure and t[1][1] >= 2:
        par, pbb = fc.closure_site(prog, body)
        if par is None or pbb is None:
            return None
        pvp = df.Prov(par)
        for bi, tt, cal in mir.iter_calls(par):
            uses = False
            for a in tt["args"]:
                ta = df.strip(pvp.op_tree(a))
                if ta[0] == "agg" and ta[1] == "closure:" + body.j["key"]:
                    uses = True
            if not uses:
                continue
            if cal["name"] == "from_fn":
                for a in cal.get("targs", []):
                    if isinstance(a, dict) and a.get("c") and a.get("v") is None:
                        return a["c"]
            if cal["name"] in ("map", "for_each", "fold", "sum"):
                rt = df.canon(pvp.op_tree(tt["args"][0]), par)
                m2 = re.match(r"^Range\{start: 0, end: (\w+)\}$", rt.replace("Range::Range", "Range"))
                if m2:
                    return m2.group(1)
        return None
    return None


def from_fn_len(parent, clos, param):
    for bi, t, cal in mir.iter_calls(parent):
        if cal["name"] == "from_fn" and "array" in cal["path"]:
            for a in cal.get("targs", []):
                if isinstance(a, dict) and a.get("c") == param:
                    return True
        if cal["name"] in ("map", "for_each") :
            return False
    return False


def cleared_list_push(b, pv, t, c, tr):
    """push into a list reached through a reference that was clear()ed before a loop over take(list.capacity()): one
    push per iteration, at most capacity iterations, starting from an empty list"""
    g = mir.cfg(b)
    bi = None
    for bj, t2, c2 in mir.iter_calls(b, name="push"):
        if t2 is t:
            bi = bj
    if bi is None or not g.succ[bi] or bi not in g.reachable_from(g.succ[bi][0]):
        return None
    lst = df.canon(tr, b)
    pushes = [bj for bj, t2, c2 in mir.iter_calls(b, name="push") if df.canon(pv.op_tree(t2["args"][0]), b) == lst]
    clears = [bj for bj, t2, c2 in mir.iter_calls(b, name="clear") if df.canon(pv.op_tree(t2["args"][0]), b) == lst]
    takes = [(bj, t2) for bj, t2, c2 in mir.iter_calls(b, name="take") if "iter" in c2["path"]]
    if len(pushes) != 1 or not clears or len(takes) != 1:
        return None
    n_ = df.canon(pv.op_tree(takes[0][1]["args"][1]), b)
    lits = c.must_literals(bi)
    driven = any(l_[0] == "variant" and set(l_[2]) == {"Some"} and df.strip(l_[1])[0] == "call" and
                 df.strip(l_[1])[2] == "next" and "::<Take as " in df.strip(l_[1])[1] for l_ in lits)
    if driven and n_ == "capacity(%s)" % lst and any(g.dominates(cb_, takes[0][0]) for cb_ in clears) and \
            g.dominates(takes[0][0], bi):
        # nothing between clear() and the loop may push: only one push site exists, and it is inside the loop
        return "A6 one push per iteration of a loop over take(capacity(list)) into a list cleared before the loop"
    return None


def fresh_list_push(b, pv, t, c):
    """ArrayVec::push into a list created by ArrayVec::new() in this body with at most CAP pushes on any path"""
    p = mir.op_place(t["args"][0])
    if p is None:
        return None
    tr = df.strip(pv.op_tree(t["args"][0]))
    if tr[0] == "path" and tr[1][0] != "local":
        return cleared_list_push(b, pv, t, c, tr)
    if tr[0] != "path" or tr[1][0] != "local":
        return None
    l = tr[1][1]
    d = df.defs(b)
    ds = d.whole.get(l, [])
    if len(ds) != 1 or ds[0][2][0] != "call":
        return None
    cn = mir.callee_of(ds[0][2][1])
    if cn is None or cn["name"] != "new" or cn["crate"] != "arrayvec":
        return None
    ty = b.local_ty(l)
    cap = None
    for a in ty.get("args", []):
        if "v" in a and a["v"] is not None:
            cap = a["v"]
    if cap is None:
        return None
    # pushes into this list
    pushes = []
    for bi, t2, c2 in mir.iter_calls(b, name="push"):
        tr2 = df.strip(pv.op_tree(t2["args"][0]))
        if tr2 == tr:
            pushes.append(bi)
    g = mir.cfg(b)
    # one push per iteration of a loop driven by an iterator truncated with take(n), n <= CAP
    if len(pushes) == 1 and g.succ[pushes[0]] and pushes[0] in g.reachable_from(g.succ[pushes[0]][0]):
        lits = c.must_literals(pushes[0])
        drv = None
        for l_ in lits:
            if l_[0] == "variant" and set(l_[2]) == {"Some"}:
                x_ = df.strip(l_[1])
                if x_[0] == "call" and x_[2] == "next" and "::<Take as " in x_[1]:
                    drv = x_
        takes = [(bi2, t2) for bi2, t2, c2 in mir.iter_calls(b, name="take") if "iter" in c2["path"]]
        # ... or by an iterator over a collection that cannot hold more than CAP items
        for l_ in lits:
            if l_[0] == "variant" and set(l_[2]) == {"Some"}:
                x_ = df.strip(l_[1])
                if x_[0] == "call" and x_[2] == "next" and len(x_[3]) == 1:
                    it_ = df.strip(x_[3][0])
                    if it_[0] == "path" and it_[1][0] == "local" and not [f for f in it_[2] if f != "*"]:
                        itl = it_[1][1]
                        n_src = source_capacity(b, d, {"k": "copy", "p": {"l": itl, "proj": [], "ty": b.locals[itl]["ty"]}})
                        ids = d.whole.get(itl, [])
                        if n_src is not None and n_src <= cap and len(ids) == 1:
                            ib, nb_ = ids[0][0], ds[0][0]
                            in_loop = bool(g.succ[ib]) and ib in g.reachable_from(g.succ[ib][0])
                            same_loop = in_loop and g.succ[nb_] and nb_ in g.reachable_from(g.succ[ib][0]) and \
                                ib in g.reachable_from(g.succ[nb_][0])
                            if (not in_loop or same_loop) and g.dominates(ib, pushes[0]):
                                return "A6 one push per item of an iterator over a collection of capacity %d into a fresh " \
                                       "ArrayVec of capacity %d" % (n_src, cap)
        if drv is not None and len(takes) == 1:
            n_ = df.canon(pv.op_tree(takes[0][1]["args"][1]), b)
            n_ok = (n_.isdigit() and int(n_) <= cap)
            if n_.startswith("capacity("):
                # capacity() of an ArrayVec with the same capacity parameter
                at = takes[0][1]["args"][1]
                for bi3, t3, c3 in mir.iter_calls(b, name="capacity"):
                    rt_ = b.ty(b.local_ty(mir.op_place(t3["args"][0])["l"])["to"]) if mir.op_place(t3["args"][0]) and \
                        b.local_ty(mir.op_place(t3["args"][0])["l"])["k"] == "ref" else None
                    if rt_ and any(isinstance(a_, dict) and a_.get("v") == cap for a_ in rt_.get("args", [])):
                        n_ok = True
            if n_ok and g.dominates(takes[0][0], pushes[0]):
                return "A6 one push per iteration of a loop over take(%s) into a fresh ArrayVec of capacity %d" % (n_, cap)
    # longest chain of push blocks along any path (no push block may reach itself)
    for x in pushes:
        if x in g.reachable_from(g.succ[x][0]) if g.succ[x] else False:
            return None
    best = 0
    for x in pushes:
        chain = 1
        cur = x
        reach = g.reachable_from(g.succ[cur][0]) if g.succ[cur] else set()
        chain += sum(1 for y in pushes if y != x and y in reach)
        best = max(best, chain)
    if best <= cap:
        return "A6 at most %d pushes into a fresh ArrayVec of capacity %d on any path" % (best, cap)
    return None


_SHRINK = ("remove", "pop", "clear", "truncate", "drain", "retain", "swap_remove", "swap_pop", "pop_at", "take")
_ADAPT = ("into_iter", "rev", "iter", "iter_mut", "enumerate", "deref", "deref_mut", "as_slice", "as_mut_slice", "skip",
          "filter", "peekable", "by_ref", "borrow", "borrow_mut", "as_ref", "as_mut")


def remove_last(b, pv, t, c):
    """`x.remove(x.len() - k)` with `x.len() >= K >= k >= 1` on every path: the index is below the length. The length
    read must dominate the removal and nothing else in the function may shrink x (a stale length)."""
    x = df.strip(pv.op_tree(t["args"][0]))
    i = df.strip(pv.op_tree(t["args"][1]))
    while i[0] == "field" and i[2] == "0":
        i = df.strip(i[1])
    if not (i[0] == "bin" and i[1] in ("SubWithOverflow", "Sub", "SubUnchecked")):
        return None
    ln, k = df.strip(i[2]), df._num(i[3])
    if k is None or k < 1 or not (ln[0] == "call" and ln[2] == "len" and len(ln[3]) == 1):
        return None
    xs = slices_norm(df.canon(x, b))
    if slices_norm(df.canon(df.strip(ln[3][0]), b)) != xs:
        return None
    bi = next((bj for bj, t2, c2 in mir.iter_calls(b) if t2 is t), None)
    if bi is None:
        return None
    have = 0
    for l in c.must_literals(bi):
        if l[0] == "cmp" and l[1] in ("ge", "gt", "eq"):
            a_, kk = df.strip(l[2]), df._num(l[3])
            if kk is not None and a_[0] == "call" and a_[2] == "len" and len(a_[3]) == 1 and \
                    slices_norm(df.canon(df.strip(a_[3][0]), b)) == xs:
                have = max(have, int(kk) + (1 if l[1] == "gt" else 0))
    if have < k:
        return None
    g = mir.cfg(b)
    for bj, t2, c2 in mir.iter_calls(b):
        if t2 is t or c2["name"] not in _SHRINK or not t2["args"]:
            continue
        if slices_norm(df.canon(df.strip(pv.op_tree(t2["args"][0])), b)) == xs:
            return None
    # the len() call whose value is the index must dominate the removal
    for bj, t2, c2 in mir.iter_calls(b, name="len"):
        if slices_norm(df.canon(df.strip(pv.op_tree(t2["args"][0])), b)) == xs and not g.dominates(bj, bi):
            return None
    return "A3 remove(len - %d) with len >= %d on every path and no other shrinking of the list" % (k, have)


def slices_norm(s_):
    return s_.replace("deref_mut(", "deref(").replace("&mut ", "&")


def source_capacity(b, d, op, depth=0):
    """upper bound on the number of items an iterator operand can yield: the capacity of the ArrayVec / the length of
    the array it was made from (through iter/iter_mut/rev/deref/... adapters that never add items)"""
    if depth > 12 or op.get("k") not in ("copy", "move"):
        return None
    p = op["p"]
    ty = b.ty(p["ty"])
    while ty["k"] == "ref":
        ty = b.ty(ty["to"])
    if ty["k"] == "array" and isinstance(ty.get("len"), int):
        return ty["len"]
    if ty["k"] == "adt" and ty.get("name") == "ArrayVec":
        for a in ty.get("args", []):
            if isinstance(a, dict) and a.get("v") is not None:
                return a["v"]
        return None
    if [e for e in p["proj"] if e[0] != "deref"]:
        return None
    ds = d.whole.get(p["l"], [])
    if len(ds) != 1:
        return None
    dd = ds[0][2]
    if dd[0] == "assign":
        r = dd[1]
        if r["k"] == "ref":
            return source_capacity(b, d, {"k": "copy", "p": r["p"]}, depth + 1)
        if r["k"] in ("use", "cast"):
            return source_capacity(b, d, r["op"], depth + 1)
        return None
    cal = mir.callee_of(dd[1])
    if cal is not None and cal["name"] in _ADAPT and dd[1]["args"]:
        return source_capacity(b, d, dd[1]["args"][0], depth + 1)
    return None


def anon(s):
    """compiler-numbered temporaries (`_157`) are not stable under unrelated edits of the function: keys hide them"""
    return re.sub(r"\b_\d+\b", "_", s)


def load_table(ctx):
    p = os.path.join(ctx.verif, "engine", "tables", "c03_sites.txt")
    table = {}
    if os.path.exists(p):
        for line in open(p):
            line = line.rstrip("\n")
            if not line.strip() or line.startswith("#"):
                continue
            parts = [x.strip() for x in line.split(" || ")]
            if len(parts) >= 3:
                table[anon(parts[0])] = (parts[1], parts[2])
    return table


def run(ctx):
    rep = ctx.report
    rep.rule("PANIC-A", "panic-capable site discharged by a structural rule (A1..A7, lock)", floor=250)
    rep.rule("PANIC-G", "panic-capable site covered by the reviewed table (guard re-checked / trusted argument)", floor=20)
    rep.rule("PANIC-F", "reachable panic listed in the table as a finding")
    rep.rule("PANIC-U", "unproven panic site: not discharged and not reviewed")
    rep.rule("PANIC-GUARD", "named structural guards that reviewed sites rely on", floor=1)
    table = load_table(ctx)
    configs = ["default"]
    if ctx.tier == "thorough":
        configs += ["nostd", "fuzz"]
    all_stats = {}
    default_findings = set()
    for cfgname in configs:
        prog = ctx.prog(cfgname)
        led = Ledger(ctx, prog, cfgname)
        led.default_findings = default_findings
        led.enumerate()
        guards, stale = led.report(table if cfgname == "default" else table)
        all_stats[cfgname] = {"public_roots": led.n_roots, "reachable_bodies": led.n_bodies, "sites": len(led.sites),
                              "by_rule": dict(led.stats),
                              "extern_callees_assumed_non_panicking": dict(led.extern_unlisted.most_common(400))}
        if cfgname == "default":
            run_guards(ctx, prog, guards)
            for k in stale:
                rep.note("stale table entry (site no longer exists): %s" % k)
    rep.extra["ledger"] = all_stats


def run_guards(ctx, prog, guards):
    """Named guards referenced by `guard:<name>` table entries; each is a structural re-check."""
    rep = ctx.report
    from rules import c15
    import types
    for g in sorted(guards | {"tlv_margin_accounting", "tlv_min_size_consistent", "master_only_excluded"}):
        if g == "tlv_margin_accounting":
            sub = sub_report(ctx)
            try:
                c15.run(sub)
                bad = [v for v in sub.report.violations if v["rule"] in ("TLV-2",)]
            except Exception as e:  # pragma: no cover
                bad = [{"what": "guard crashed: %r" % e}]
            if bad:
                rep.violation("PANIC-GUARD", "send_announce", "guard:tlv_margin_accounting",
                              "margin accounting in send_announce is broken (%s): Message::serialize(..).unwrap() / the buffer "
                              "split can panic" % bad[0]["what"][:300], where=bad[0].get("where"))
            else:
                rep.ok("PANIC-GUARD", "send_announce", "guard:tlv_margin_accounting")
        elif g == "tlv_min_size_consistent":
            from rules.c15 import min_len_literal, min_len_iter
            try:
                td = prog.one(name="deserialize", self_name="TlvSet", crate="statime-lib")
                it = prog.one(name="next", self_name="TlvSetIterator", crate="statime-lib")
                a, b_ = min_len_literal(prog, td, True), min_len_iter(prog, it)
                if a == b_:
                    rep.ok("PANIC-GUARD", td.key, "guard:tlv_min_size_consistent", detail={"deserialize": a, "iterator": b_})
                else:
                    rep.violation("PANIC-GUARD", td.key, "guard:tlv_min_size_consistent",
                                  "TlvSet::deserialize accepts a trailing element of %s bytes but TlvSetIterator::next stops at "
                                  "%s: the iterator's debug_assert_eq!(len, 0) fires on a validated set" % (a, b_), where=td.loc())
            except AnchorMissing as e:
                rep.anchor_missing("PANIC-GUARD", str(e))
        elif g == "master_only_excluded":
            from rules import c08
            sub = sub_report(ctx)
            try:
                bl = prog.one(name="best_local_announce_message_for_bmca", self_name="Port", crate="statime-lib")
                sub.report.rule("ROLE-5", "")
                c08.check_exclusion_gate(sub.report, prog, bl, "ROLE-5")
                bad = sub.report.violations
            except AnchorMissing as e:
                bad = [{"what": str(e)}]
            if bad:
                rep.violation("PANIC-GUARD", "best_local_announce_message_for_bmca", "guard:master_only_excluded",
                              "master-only ports are no longer excluded from Ebest (%s): debug_assert!(!master_only) in the S1 arm "
                              "becomes reachable" % bad[0]["what"][:200])
            else:
                rep.ok("PANIC-GUARD", "best_local_announce_message_for_bmca", "guard:master_only_excluded")
        elif g == "kalman_state_finite":
            # the Kalman state/uncertainty are only updated from a measurement when the innovation variance is finite and
            # positive (otherwise 1/0 -> NaN state -> Duration::from_seconds(NaN) panics at the sites relying on this)
            try:
                b = prog.one(name="absorb_measurement", self_name="InnerFilter", crate="statime-lib")
                from sa.stores import stores as _stores
                sts, _pv = _stores(b)
                c_ = cnd.conds(prog, b)
                wr = [s_ for s_ in sts if s_["lhs"] in ("self.state", "self.uncertainty")]
                bad = []
                for s_ in wr:
                    lits = [cnd.lit_canon(l, b) for l in c_.must_literals(s_["bb"])]
                    fin = any(l.startswith("is_finite(entry(") for l in lits)
                    pos = any(re.match(r"entry\(.*\) gt 0(\.0)?$", l) for l in lits)
                    if not (fin and pos):
                        bad.append("%s under %s" % (s_["lhs"], lits))
                if wr and not bad:
                    rep.ok("PANIC-GUARD", b.key, "guard:kalman_state_finite", detail={"guarded_stores": len(wr)})
                else:
                    rep.violation("PANIC-GUARD", b.key, "guard:kalman_state_finite",
                                  "InnerFilter::absorb_measurement updates the filter state without the innovation-variance "
                                  "guard (finite and > 0): %s; a zero-variance sample set makes 1/0 -> NaN state and "
                                  "Duration::from_seconds(NaN) panics in steer/update/current_estimates" % (bad or "no stores found"),
                                  where=b.loc())
            except AnchorMissing as e:
                rep.anchor_missing("PANIC-GUARD", str(e))
        elif g == "kalman_step_finite":
            try:
                tgt = prog.one(name="absorb_offset_steer", self_name="InnerFilter", crate="statime-lib")
                n_ok, bad = 0, []

                def callers_checked(fn_body, depth):
                    nonlocal n_ok
                    hit = False
                    for cb in prog.bodies.values():
                        if cb.unit.name != "statime-lib" or cb.is_test():
                            continue
                        cc = None
                        for bi, t, cal in mir.iter_calls(cb, name=fn_body.name):
                            if (cal.get("resolved") or cal["key"]) != fn_body.key:
                                continue
                            hit = True
                            cc = cc or cnd.conds(prog, cb)
                            a = df.strip(cc.prov.op_tree(t["args"][1]))
                            while (a[0] == "un" and a[1] == "Neg") or (a[0] == "call" and a[2] == "neg"):
                                a = df.strip(a[2] if a[0] == "un" else a[3][0])
                            ca = df.canon(a, cb)
                            lits = [cnd.lit_canon(l, cb) for l in cc.must_literals(bi)]
                            if "is_finite(%s)" % ca in lits:
                                n_ok += 1
                            elif a[0] == "path" and a[1][0] == "arg" and not a[2] and depth < 3:
                                callers_checked(cb, depth + 1)      # forwarded parameter: its callers must check
                            else:
                                bad.append("%s: %s(%s) under %s" % (cb.name, fn_body.name, ca, lits))
                    if not hit:
                        bad.append("no caller of %s" % fn_body.key)
                callers_checked(tgt, 0)
                if n_ok and not bad:
                    rep.ok("PANIC-GUARD", tgt.key, "guard:kalman_step_finite", detail={"call_sites": n_ok})
                else:
                    rep.violation("PANIC-GUARD", tgt.key, "guard:kalman_step_finite",
                                  "a call of InnerFilter::absorb_offset_steer passes a value that is not is_finite()-checked: %s"
                                  % (bad or "no call sites"), where=tgt.loc())
            except AnchorMissing as e:
                rep.anchor_missing("PANIC-GUARD", str(e))
        elif g == "ring_index_bounded":
            # MeasurementErrorEstimator: data[next_idx] is in bounds and next_idx + 1 / fill + 1 cannot overflow because the
            # ONLY writers of next_idx / fill keep them <= data.len(): next_idx = (next_idx + 1) % data.len(),
            # fill = min(fill + 1, data.len()), both starting from Default (0)
            try:
                from sa.stores import stores as _stores
                writers = []
                agg_bad = []
                for b in prog.bodies.values():
                    if b.unit.name != "statime-lib" or b.is_test():
                        continue
                    for bi, si, st in mir.iter_stmts(b):
                        if st["k"] == "assign" and st["r"]["k"] == "agg" and st["r"].get("name", "").endswith("MeasurementErrorEstimator"):
                            pv_ = df.Prov(b)
                            for f_, o_ in zip(st["r"].get("fields", []), st["r"]["ops"]):
                                if f_ in ("next_idx", "fill") and df.canon(pv_.op_tree(o_), b) not in ("default()", "0"):
                                    agg_bad.append("%s: %s = %s" % (b.name, f_, df.canon(pv_.op_tree(o_), b)))
                    if "MeasurementErrorEstimator" not in b.key and "kalman" not in b.key:
                        continue
                    sts, pv_ = _stores(b, include_locals=False)
                    for s_ in sts:
                        if re.search(r"(^|\.)(next_idx|fill)$", s_["lhs"]) and "measurement_error_estimator" in (s_["lhs"] + b.key).lower() \
                                or (b.self_name == "MeasurementErrorEstimator" and s_["lhs"] in ("self.next_idx", "self.fill")):
                            writers.append((b, s_["lhs"].split(".")[-1], df.canon(s_["tree"], b)))
                okw = {"next_idx": r"rem\(add(withoverflow)?\(self\.next_idx, 1\), len\((cast<&\[f64\]>\()?self\.data\)?\)\)",
                       "fill": r"min\(add(withoverflow)?\(self\.fill, 1\), len\((cast<&\[f64\]>\()?self\.data\)?\)\)"}
                bad = ["%s: %s = %s" % (b.name, f_, v_) for (b, f_, v_) in writers if not re.fullmatch(okw[f_], v_)] + agg_bad
                if writers and not bad:
                    rep.ok("PANIC-GUARD", "statime::filters::kalman::<MeasurementErrorEstimator>", "guard:ring_index_bounded",
                           detail={"writers": ["%s.%s" % (b.name, f_) for (b, f_, v_) in writers]})
                else:
                    rep.violation("PANIC-GUARD", "statime::filters::kalman::<MeasurementErrorEstimator>", "guard:ring_index_bounded",
                                  "the ring-buffer cursor/fill of the measurement error estimator is written in a way that "
                                  "does not keep it within the data array (%s): data[next_idx] can index out of bounds / "
                                  "the increments can overflow" % (bad or "no writers found"))
            except AnchorMissing as e:
                rep.anchor_missing("PANIC-GUARD", str(e))
        elif g == "kalman_filters_in_lockstep":
            # progress_filtertime's debug_assert(time >= filter_time) holds for the WANDER filter only because
            # measurement() guards on the running filter's time and both filters are steered identically: every
            # absorb_offset_steer / absorb_frequency_steer of one is matched by the same call on the other
            try:
                n_fn = 0
                bad = []
                for kb in prog.bodies.values():
                    if kb.unit.name != "statime-lib" or kb.is_test() or kb.self_name != "KalmanFilter":
                        continue
                    pvk = df.Prov(kb)
                    per = {"running_filter": [], "wander_filter": []}
                    for bi, t, cal in mir.iter_calls(kb):
                        if cal["name"] not in ("absorb_offset_steer", "absorb_frequency_steer") or not t["args"]:
                            continue
                        recv = df.canon(pvk.op_tree(t["args"][0]), kb)
                        for fld in per:
                            if recv.endswith(fld):
                                per[fld].append((cal["name"], tuple(df.canon(pvk.op_tree(a), kb) for a in t["args"][1:])))
                    if per["running_filter"] or per["wander_filter"]:
                        n_fn += 1
                        if sorted(per["running_filter"]) != sorted(per["wander_filter"]):
                            bad.append("%s: running %s / wander %s" % (kb.name, per["running_filter"], per["wander_filter"]))
                if n_fn == 0:
                    raise AnchorMissing("no steering of running_filter / wander_filter found in KalmanFilter")
                if bad:
                    rep.violation("PANIC-GUARD", "statime::filters::kalman::<KalmanFilter>", "guard:kalman_filters_in_lockstep",
                                  "the running and the wander filter are no longer steered alike (%s): after a backward step "
                                  "their time bases differ, the wander filter is progressed to a time before its own and "
                                  "debug_assert!(time >= self.filter_time) panics" % "; ".join(bad))
                else:
                    rep.ok("PANIC-GUARD", "statime::filters::kalman::<KalmanFilter>", "guard:kalman_filters_in_lockstep",
                           detail={"functions": n_fn})
            except AnchorMissing as e:
                rep.anchor_missing("PANIC-GUARD", str(e))
        elif g == "reverse_index_removal":
            # ForeignMasterList::step_age indexes and removes inside an index loop: sound only when the loop runs
            # over (0..len).rev() and the only length change is remove() at the current index
            try:
                b = prog.one(name="step_age", self_name="ForeignMasterList", crate="statime-lib")
                pv = df.Prov(b)
                iters, removes, other_mut = [], [], []
                for bi, blk in enumerate(b.blocks):
                    t = blk["term"]
                    if t["k"] != "call":
                        continue
                    c = mir.callee_of(t)
                    if c is None:
                        continue
                    args = [df.canon(pv.op_tree(a), b) for a in t["args"]]
                    if c["name"] == "into_iter":
                        iters.append(args[0])
                    elif c["name"] == "remove":
                        removes.append(args)
                    elif c["name"] in ("push", "try_push", "insert", "try_insert", "pop", "swap_remove", "truncate",
                                       "clear", "retain", "drain", "swap_pop", "pop_at", "extend"):
                        other_mut.append(c["name"])
                import re as _re
                good_iter = len(iters) == 1 and _re.fullmatch(
                    r"rev\(Range\{start: 0, end: len\((self\.foreign_masters)\)\}\)", iters[0]) is not None
                good_rm = all(a[0] == "self.foreign_masters" and a[1] == "next(iter)" for a in removes)
                if good_iter and good_rm and not other_mut:
                    rep.ok("PANIC-GUARD", b.key, "guard:reverse_index_removal",
                           detail={"iterator": iters[0], "removals": len(removes)})
                else:
                    rep.violation("PANIC-GUARD", b.key, "guard:reverse_index_removal",
                                  "the index loop in ForeignMasterList::step_age is no longer `(0..len).rev()` with removal "
                                  "only at the current index (iterator %s, removals %s, other length changes %s): after a "
                                  "removal a later index can be >= len and `foreign_masters[i]` / remove(i) panics" %
                                  (iters, removes, other_mut), where=b.loc())
            except AnchorMissing as e:
                rep.anchor_missing("PANIC-GUARD", str(e))
        else:
            rep.violation("PANIC-GUARD", "<table>", "guard:%s" % g, "unknown guard name in c03_sites.txt")


def sub_report(ctx):
    import copy
    from runner import Report

    class Sub:
        pass
    s = Sub()
    s.tier = ctx.tier
    s.verif = ctx.verif
    s.repo = ctx.repo
    s.prog = ctx.prog
    s.explain = None
    s.is_sub = True
    s.report = Report("C15")
    return s
