"""C08 — ports act only within their role; at most one port steers the clock (ROLE-1..6)."""
from sa import mir, dataflow as df, conds as cnd, fsm
from sa.stores import stores
from sa.callgraph import callgraph
from sa.facts import AnchorMissing
from rules import fsm_common as fc

LEVEL = "other"
ANCHOR_RULE = "ROLE-1"
EXPLANATION = (
    "ROLE-1 (typestate): at every call of Message::{announce,sync,follow_up,delay_resp} the set of possible port "
    "states (path conditions on self.port_state on every path to the site, through closures passed to with_ref, "
    "with a check that nothing in between can change the state) is {Master}; at Message::delay_req it is {Slave}. "
    "ROLE-2: every extracted FSM row into Master is conditional on !slave_only (the with_ref closure is resolved "
    "to defaultDS.slave_only) and every row into Slave on decision code S1; for every decision class the row's "
    "prior-state set covers every state other than the target and Faulty (a decision is never skipped for some "
    "prior state). ROLE-3 (who-may-call): Clock::set_frequency/step_clock are called only from Filter impls, "
    "filter types and Clock wrappers; Port code calls only set_properties, under decision S1; Filter::measurement "
    "is called from exactly one site and offset/delay samples are produced only in state Slave. ROLE-4: in "
    "set_forced_port_state the path that skips filter replacement + demobilize is taken only when the OLD state "
    "is neither Slave nor Faulty and the new state is not Faulty (old/new resolved relative to the mem::swap). "
    "ROLE-5: best_local_announce_message_for_bmca can return the port's Erbest only when !master_only and the "
    "port is not Faulty (master-only ports never own Ebest, hence never get S1). ROLE-6: every construction of "
    "RecommendedState::S1 is a result row conditional on whole-record equality of the two BestAnnounceMessage "
    "parameters, and that equality (PartialEq of BestAnnounceMessage) compares message and receiving port identity."
    " ROLE-6 also requires BestAnnounceMessage.identity to be the receiving port's own identity. ROLE-8: port_state is written only inside set_forced_port_state."
)
NOT_DECIDED = "'at most one port is slave at any moment' (depends on the run-time equality Ebest == Erbest of one port only)"

EMITTERS = {"sync": {"Master"}, "follow_up": {"Master"}, "announce": {"Master"}, "delay_resp": {"Master"},
            "delay_req": {"Slave"}}
DECISION_TARGET = {
    # (decision class, guard) -> target
}


def run(ctx):
    _run(ctx)
    import witness
    witness.report(ctx, "C08")


def _run(ctx):
    rep = ctx.report
    prog = ctx.prog("default")
    cg = callgraph(prog)
    rep.rule("ROLE-1", "emitters run only in their role's port state (typestate at every Message constructor call)", floor=5)
    rep.rule("ROLE-2", "->Master needs !slave_only; ->Slave needs S1; decisions are applied from every prior state", floor=6)
    rep.rule("ROLE-3", "only filters and clock wrappers steer the clock; samples only in Slave", floor=8)
    rep.rule("ROLE-4", "leaving Slave/Faulty (or entering Faulty) always replaces and demobilizes the filter", floor=1)
    rep.rule("ROLE-5", "master-only and faulty ports are excluded from Ebest", floor=1)
    rep.rule("ROLE-6", "decision code S1 is produced only where Ebest and the port's Erbest are equal as whole records "
                       "(incl. the receiving port identity)", floor=2)

    # ---- ROLE-1
    for b in prog.bodies.values():
        if b.unit.name != "statime-lib" or b.is_test():
            continue
        for bi, t, c in mir.iter_calls(b):
            if c["name"] in EMITTERS and "messages::<Message>::" in c["key"]:
                allowed = EMITTERS[c["name"]]
                states, kills, (ob, obb) = fc.state_at_site(prog, b, bi)
                construct = "Message::%s" % c["name"]
                if not states <= allowed or kills:
                    rep.violation("ROLE-1", ob.key, construct,
                                  "%s is built where the port state may be %s (allowed: %s)%s" % (
                                      construct, sorted(states), sorted(allowed),
                                      "; state may change between the check and the use: %s" % kills if kills else ""),
                                  where=fc.where(b, t["sp"][1]))
                else:
                    rep.ok("ROLE-1", ob.key, construct, detail=sorted(states), where=fc.where(b, t["sp"][1]))

    # ---- ROLE-2
    rows = fsm.transitions(prog)
    for r in rows:
        b = r["body"]
        to = r["to"] or set()
        lits = r["lits"]
        if to == {"Master"}:
            ok = False
            for l in lits:
                if l[0] == "bool" and l[2] is False:
                    if is_slave_only_tree(prog, b, l[1]):
                        ok = True
            if ok:
                rep.ok("ROLE-2", b.key, "->Master needs !slave_only", where=fc.where(b, r["line"]))
            else:
                rep.violation("ROLE-2", b.key, "->Master needs !slave_only",
                              "transition to Master is not conditional on defaultDS.slave_only == false; conditions: %s" %
                              sorted(cnd.lit_str(l) for l in lits), where=fc.where(b, r["line"]))
        if to == {"Slave"}:
            ok = any(l[0] == "variant" and l[3] == "RecommendedState" and l[2] == frozenset(["S1"]) for l in lits)
            if ok:
                rep.ok("ROLE-2", b.key, "->Slave needs S1", where=fc.where(b, r["line"]))
            else:
                rep.violation("ROLE-2", b.key, "->Slave needs S1",
                              "transition to Slave outside decision code S1; conditions: %s" %
                              sorted(cnd.lit_str(l) for l in lits), where=fc.where(b, r["line"]))
        # decision coverage
        dec = None
        for l in lits:
            if l[0] == "variant" and l[3] == "RecommendedState":
                dec = l[2]
        if dec is not None and len(to) == 1:
            tgt = list(to)[0]
            must_cover = set(fsm.STATES) - {tgt, "Faulty"}
            if tgt == "Slave":
                must_cover = {"Listening", "Master", "Passive", "Slave"}  # Slave->Slave when the parent changes
            missing = must_cover - r["from"]
            construct = "decision %s->%s" % ("/".join(sorted(dec)), tgt)
            if missing:
                rep.violation("ROLE-2", b.key, construct,
                              "decision %s is not applied when the port is %s: it keeps its old role" % (
                                  "/".join(sorted(dec)), sorted(missing)), where=fc.where(b, r["line"]))
            else:
                rep.ok("ROLE-2", b.key, construct, detail="from {%s}" % ",".join(sorted(r["from"])),
                       where=fc.where(b, r["line"]))

    # ---- ROLE-3 who may call
    CLOCK = "statime::clock::Clock"
    FILTER = "statime::filters::Filter"
    n_sites = 0
    for b in prog.bodies.values():
        if b.is_test():
            continue
        for bi, t, c in mir.iter_calls(b):
            if c.get("trait") == CLOCK and c["name"] in ("set_frequency", "step_clock"):
                n_sites += 1
                owner = b
                while owner.is_closure:
                    p = cg.lookup(owner.unit, owner.parent)
                    if p is None:
                        break
                    owner = p
                allowed = (owner.trait in (FILTER, CLOCK) or (owner.self_name or "") in FILTER_TYPES or
                           "::filters::" in owner.key or "::clock" in owner.module)
                construct = "Clock::%s" % c["name"]
                if allowed:
                    rep.ok("ROLE-3", owner.key, construct, where=fc.where(b, t["sp"][1]))
                else:
                    rep.violation("ROLE-3", owner.key, construct,
                                  "%s is called outside a Filter / Clock implementation: code other than the slave "
                                  "port's servo adjusts the clock" % construct, where=fc.where(b, t["sp"][1]))
            if c.get("trait") == CLOCK and c["name"] == "set_properties" and b.unit.name == "statime-lib" \
                    and b.trait != CLOCK:
                lits, outer, _ = fc.site_literals(prog, b, bi)
                ok = any(l[0] == "variant" and l[3] == "RecommendedState" and l[2] == frozenset(["S1"]) for l in lits | outer)
                if ok:
                    rep.ok("ROLE-3", b.key, "Clock::set_properties under S1", where=fc.where(b, t["sp"][1]))
                else:
                    rep.violation("ROLE-3", b.key, "Clock::set_properties",
                                  "set_properties is called outside decision code S1", where=fc.where(b, t["sp"][1]))
            if c.get("trait") == FILTER and c["name"] == "measurement" and b.unit.name == "statime-lib" and b.trait != FILTER:
                if b.name == "handle_time_measurement":
                    rep.ok("ROLE-3", b.key, "Filter::measurement", where=fc.where(b, t["sp"][1]))
                else:
                    rep.violation("ROLE-3", b.key, "Filter::measurement",
                                  "Filter::measurement is fed from a second site", where=fc.where(b, t["sp"][1]))
    # samples only in Slave
    try:
        em = prog.one(name="extract_measurement", self_name="Port", crate="statime-lib")
        c = cnd.conds(prog, em)
        sts, pv = stores(em)
        for s in sts:
            if s["lhs"] in ("result.offset", "result.raw_sync_offset", "result.raw_delay_offset", "result.delay") and not s["macro"]:
                st = fsm.port_state_set(c.must_literals(s["bb"]))
                if st <= {"Slave"}:
                    rep.ok("ROLE-3", em.key, "sample %s only in Slave" % s["lhs"], where=fc.where(em, s["line"]))
                else:
                    rep.violation("ROLE-3", em.key, "sample %s only in Slave" % s["lhs"],
                                  "an offset/delay sample is produced while the port may be %s" % sorted(st),
                                  where=fc.where(em, s["line"]))
    except AnchorMissing as e:
        rep.anchor_missing("ROLE-3", str(e))

    # ---- ROLE-4
    try:
        sf = prog.one(name="set_forced_port_state", self_name="Port", crate="statime-lib")
        check_role4(rep, prog, sf)
    except AnchorMissing as e:
        rep.anchor_missing("ROLE-4", str(e))

    # ---- ROLE-5
    try:
        bl = prog.one(name="best_local_announce_message_for_bmca", self_name="Port", crate="statime-lib")
        check_exclusion_gate(rep, prog, bl, "ROLE-5")
    except AnchorMissing as e:
        rep.anchor_missing("ROLE-5", str(e))

    # ---- ROLE-6
    check_role6(rep, prog)
    rep.rule("ROLE-8", "the port state changes only through set_forced_port_state (shared with C13 SERVO-10)", floor=1)
    fc.check_state_writes(rep, prog, "ROLE-8")
    # ---- ROLE-7
    rep.rule("ROLE-7", "start_bmca/end_bmca carry port_state, filter, clock, config and BMCA state over unchanged "
                       "(shared with C10 TX-7)", floor=2)
    fc.check_lifecycle_transfer(rep, prog, "ROLE-7", fields={"port_state", "filter", "filter_config", "clock", "config",
                                                             "instance_state", "bmca", "multiport_disable"},
                                check_pending=False)


def check_role6(rep, prog):
    import re
    sites = 0
    for b in sorted(prog.bodies.values(), key=lambda x: x.key):
        if b.unit.name != "statime-lib" or b.is_test():
            continue
        builds = False
        for bi, si, st in mir.iter_stmts(b):
            if st["k"] == "assign" and st["r"]["k"] == "agg" and st["r"].get("ak") == "adt" and \
                    st["r"].get("name", "").endswith("RecommendedState") and st["r"].get("variant") == "S1":
                builds = True
        if not builds:
            continue
        sites += 1
        # the two BestAnnounceMessage parameters
        params = [i for i in range(1, b.argc + 1) if "BestAnnounceMessage" in b.ty(b.locals[i]["ty"])["s"]]
        rows = [(r, w) for (r, w) in cnd.result_rows(prog, b, positional=True) if r.startswith("S1(")]
        for (r, w) in rows:
            ok = len(params) == 2 and ("arg%d eq arg%d" % (params[0], params[1]) in w or
                                       "arg%d eq arg%d" % (params[1], params[0]) in w)
            m = re.fullmatch(r"S1\(arg(\d+)\.message\)", r)
            ok = ok and m is not None and int(m.group(1)) in params
            if ok:
                rep.ok("ROLE-6", b.key, "%s <= %s" % (r, "; ".join(w)), where=b.loc())
            else:
                rep.violation("ROLE-6", b.key, "S1 row", "S1 is produced as `%s` under [%s]: not conditional on Ebest == "
                              "Erbest as whole records (message, age AND receiving port identity), so a port that did "
                              "not receive Ebest can be told to become slave (several slave ports / a master-only "
                              "port slave)" % (r, "; ".join(w)), where=b.loc())
        if not rows:
            rep.violation("ROLE-6", b.key, "S1 row", "S1 is constructed but no result row could be extracted", where=b.loc())
    if sites == 0:
        rep.anchor_missing("ROLE-6", "no construction of RecommendedState::S1 found in statime-lib")
    # the record's `identity` is the RECEIVING port's own identity (it is what makes Ebest == Erbest true for exactly
    # one port); the sender's identity is a neighbouring field of the same type
    nb = 0
    for b in sorted(prog.bodies.values(), key=lambda x: x.key):
        if b.unit.name != "statime-lib" or b.is_test():
            continue
        pvb = None
        for bi, si, st in mir.iter_stmts(b):
            if st["k"] == "assign" and st["r"]["k"] == "agg" and st["r"].get("ak") == "adt" and \
                    st["r"].get("name", "") == "BestAnnounceMessage":
                pvb = pvb or df.Prov(b)
                tr = pvb.rvalue_tree(st["r"])
                idt = dict(tr[3]).get("identity")
                if idt is None:
                    continue
                nb += 1
                txt = df.canon(idt, b)
                okid = (txt.endswith("own_port_identity") or txt.endswith(".port_identity") or txt == "identity" or
                        txt.endswith(".identity")) and "source_port_identity" not in txt and "header" not in txt
                if okid:
                    rep.ok("ROLE-6", b.key, "record identity = receiving port", detail=txt, where=fc.where(b, st["sp"][1]))
                else:
                    rep.violation("ROLE-6", b.key, "record identity = receiving port",
                                  "BestAnnounceMessage.identity is filled from `%s`, not from the receiving port's own identity: "
                                  "two ports that hear the same Announce produce EQUAL records, both match Ebest and both are "
                                  "told to become slave" % txt, where=fc.where(b, st["sp"][1]))
    if nb == 0:
        rep.anchor_missing("ROLE-6", "no construction of BestAnnounceMessage found")
    # record equality includes the receiver identity
    eqs = [b for b in prog.find(name="eq", crate="statime-lib") if "<BestAnnounceMessage as" in b.key and "PartialEq" in b.key]
    if len(eqs) != 1:
        rep.anchor_missing("ROLE-6", "PartialEq impl of BestAnnounceMessage not found (%d)" % len(eqs))
        return
    e = eqs[0]
    pv = df.Prov(e)
    fields = set()
    for bi, t, c in mir.iter_calls(e):
        a = [df.canon(pv.op_tree(x), e) for x in t["args"]]
        if c["name"] == "eq" and len(a) == 2 and a[0].startswith("self.") and a[1] == "other." + a[0][5:]:
            fields.add(a[0][5:])
    for bi, si, st in mir.iter_stmts(e):
        if st["k"] == "assign" and st["r"]["k"] == "bin" and st["r"]["op"] == "Eq":
            a = [df.canon(pv.op_tree(st["r"][x]), e) for x in ("a", "b")]
            if a[0].startswith("self.") and a[1] == "other." + a[0][5:]:
                fields.add(a[0][5:])
    need = {"message", "identity"}
    if need <= fields:
        rep.ok("ROLE-6", e.key, "equality compares %s" % sorted(fields), where=e.loc())
    else:
        rep.violation("ROLE-6", e.key, "record equality", "BestAnnounceMessage equality compares only %s: without `identity` "
                      "Ebest == Erbest holds for every port that heard the same Announce" % sorted(fields), where=e.loc())


FILTER_TYPES = ("KalmanFilter", "BasicFilter", "InnerFilter", "BaseFilter")


def is_slave_only_tree(prog, body, tree):
    """tree is `path ...slave_only` or `with_ref(instance_state, closure)` whose closure returns
    state.default_ds.slave_only"""
    t = df.strip(tree)
    f = df.named_fields(t)
    if f and f[-1] == "slave_only":
        # it must be THE flag of defaultDS (the live one), not a copy cached somewhere else
        if "default_ds" in f:
            return True
        if t[0] == "path" and t[1][0] in ("arg", "local") and len(f) == 1:
            ty = body.local_ty(t[1][1])
            while ty["k"] == "ref":
                ty = body.ty(ty["to"])
            return ty["k"] == "adt" and ty.get("name") == "InternalDefaultDS"
        return False
    if t[0] == "call" and t[2] in ("with_ref", "with_mut") and len(t[3]) >= 2:
        clo = df.strip(t[3][1])
        if clo[0] == "agg" and clo[1].startswith("closure:"):
            key = clo[1][len("closure:"):]
            cg = callgraph(prog)
            cb = cg.lookup(body.unit, key)
            if cb is not None:
                rt, pv = fc.closure_return_tree(prog, cb)
                f2 = df.named_fields(rt)
                return bool(f2) and f2[-1] == "slave_only" and "default_ds" in f2
    return False


def check_exclusion_gate(rep, prog, bl, rid):
    """the function returns lifecycle.local_best only when !config.master_only and port_state != Faulty"""
    c = cnd.conds(prog, bl)
    found = False
    # every definition of the return place: assignments and calls writing _0 directly
    defs0 = []
    for bi, si, s in mir.iter_stmts(bl):
        if s["k"] == "assign" and s["p"]["l"] == 0 and not s["p"]["proj"]:
            defs0.append((bi, s, c.prov.rvalue_tree(s["r"])))
    for bi, t_, cal_ in mir.iter_calls(bl):
        if t_["dest"]["l"] == 0 and not t_["dest"]["proj"]:
            defs0.append((bi, t_, c.prov.call_tree(t_)))
    for (bi, s, tr) in defs0:
        if True:
            f = df.named_fields(tr)
            t0 = df.strip(tr)
            if t0[0] == "call" and t0[2] == "filter" and t0[1] == "core::option::Option::filter" and \
                    (df.named_fields(t0[3][0]) or ("",))[-1] == "local_best":
                # `local_best.filter(|_| keep)`: Erbest is handed out exactly when `keep` is true; keep must force
                # !master_only and port_state != Faulty
                found = True
                atoms = df.forced(t0[3][1], True, bl)
                lits = c.must_literals(bi)
                mo = any(a.endswith("master_only") and v is False for (a, v) in atoms) or any(
                    l[0] == "bool" and l[2] is False and (df.named_fields(l[1]) or ())[-1:] == ("master_only",) for l in lits)
                nf = any(("port_state" in a and "Faulty" in a and a.startswith("eq(")) and v is False for (a, v) in atoms) or \
                    "Faulty" not in fsm.port_state_set(lits)
                construct = "returns Erbest"
                if mo and nf:
                    rep.ok(rid, bl.key, construct, detail=sorted("%s=%s" % av for av in atoms), where=fc.where(bl, s["sp"][1]))
                else:
                    rep.violation(rid, bl.key, construct,
                                  "the port's Erbest can take part in the Ebest election although %s (the filter keeps it when %s)" % (
                                      "the port is master-only" if not mo else "the port may be Faulty",
                                      df.canon(t0[3][1], bl)[:200]), where=fc.where(bl, s["sp"][1]))
                continue
            if f and f[-1] == "local_best":
                found = True
                lits = c.must_literals(bi)
                mo = any(l[0] == "bool" and l[2] is False and (df.named_fields(l[1]) or ())[-1:] == ("master_only",) for l in lits)
                st = fsm.port_state_set(lits)
                construct = "returns Erbest"
                if mo and "Faulty" not in st:
                    rep.ok(rid, bl.key, construct, detail=sorted(cnd.lit_str(l) for l in lits), where=fc.where(bl, s["sp"][1]))
                else:
                    rep.violation(rid, bl.key, construct,
                                  "the port's Erbest can take part in the Ebest election although %s" % (
                                      "the port is master-only" if not mo else "the port may be Faulty"),
                                  where=fc.where(bl, s["sp"][1]))
    if not found:
        rep.violation(rid, bl.key, "returns Erbest", "cannot find the return of lifecycle.local_best", where=bl.loc())


def check_role4(rep, prog, sf):
    c = cnd.conds(prog, sf)
    g = mir.cfg(sf)
    demob = [bi for bi, t, cc in mir.iter_calls(sf, name="demobilize")]
    newf = [bi for bi, t, cc in mir.iter_calls(sf, name="new") if cc.get("trait") == "statime::filters::Filter"]
    swaps = [(bi, t) for bi, t, cc in mir.iter_calls(sf) if cc["name"] in ("swap", "replace") and "mem" in cc["path"]]
    construct = "filter replaced+demobilized"
    if not demob or not newf:
        rep.violation("ROLE-4", sf.key, construct, "set_forced_port_state no longer creates a fresh filter and "
                      "demobilizes the old one (demobilize calls: %d, Filter::new calls: %d)" % (len(demob), len(newf)),
                      where=sf.loc())
        return
    # which swap exchanges the port state?
    pv = c.prov
    state_swap = None
    filter_swap = None
    state_is_replace = False
    for (bi, t) in swaps:
        names = [df.named_fields(pv.op_tree(a)) for a in t["args"]]
        if any(n and n[-1] == "port_state" for n in names):
            state_swap = bi
            state_is_replace = mir.callee_of(t)["name"] == "replace"
        if any(n and n[-1] == "filter" for n in names):
            filter_swap = bi
    if filter_swap is None:
        rep.violation("ROLE-4", sf.key, construct, "the fresh filter is not swapped into self.filter", where=sf.loc())
        return
    # bypass entries: blocks that cannot reach demobilize, with a predecessor that can
    can = set()
    st = list(demob)
    while st:
        x = st.pop()
        if x in can:
            continue
        can.add(x)
        st.extend(g.pred[x])
    entries = [b for b in sorted(g.reach) if b not in can and b != g.EXIT and any(p in can for p in g.pred[b])
               and not sf.blocks[b]["cleanup"] and not any(g.dominates(dm, b) for dm in demob)
               and sf.blocks[b]["term"]["k"] != "unreachable"]    # the impossible arm of an exhaustive match
    bad = []
    for e in entries:
        lits = c.must_literals(e)
        # old/new resolution
        after_swap = state_swap is not None and g.dominates(state_swap, e)
        self_set = fsm.port_state_set(lits)
        arg_set = set(fsm.STATES)
        repl_set = set(fsm.STATES)       # the value mem::replace(&mut self.port_state, _) returned = the OLD state
        for l in lits:
            if l[0] == "variant" and l[3] == "PortState":
                t = df.strip(l[1])
                if t[0] == "path" and t[1] == ("arg", 2) and not df.named_fields(t):
                    arg_set &= set(l[2])
                if t[0] == "call" and t[2] == "replace" and t[3] and (df.named_fields(t[3][0]) or ("",))[-1] == "port_state":
                    repl_set &= set(l[2])
        if state_swap is None:
            bad.append("no mem::swap / mem::replace of port_state found")
            continue
        if state_is_replace:
            # replace: the argument is the new state (and so is self.port_state afterwards); the result is the old one
            old = repl_set if after_swap else self_set
            new = (arg_set & self_set) if after_swap else arg_set
        else:
            old, new = (arg_set, self_set) if after_swap else (self_set, arg_set)
        if old & {"Slave", "Faulty"}:
            bad.append("skipped although the old state may be %s" % sorted(old & {"Slave", "Faulty"}))
        if "Faulty" in new:
            bad.append("skipped although the new state may be Faulty")
    if bad or not entries:
        if not entries and not bad:
            rep.ok("ROLE-4", sf.key, construct, detail="unconditional", where=sf.loc())
        else:
            rep.violation("ROLE-4", sf.key, construct,
                          "the filter replacement/demobilize is %s: a port that stops being slave keeps a mobilized "
                          "servo" % "; ".join(sorted(set(bad))), where=sf.loc())
    else:
        rep.ok("ROLE-4", sf.key, construct, detail={"bypass_blocks": entries}, where=sf.loc())
