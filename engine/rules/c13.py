"""C13 — clock control commands stay finite and within configured bounds (SERVO-1..5)."""
import re
from sa import mir, dataflow as df, conds as cnd
from sa.callgraph import callgraph
from sa.facts import AnchorMissing
from rules import fsm_common as fc

LEVEL = "other"
ANCHOR_RULE = "SERVO-1"
EXPLANATION = (
    "SERVO-1: every argument of Clock::set_frequency in the Kalman servo is either the constant 0.0 or "
    "cur + clamp_adjustment(cur, _, config.max_freq_offset) with the same `cur` in both positions (expression trees "
    "over MIR), and clamp_adjustment itself returns a value v with current + v inside [-bound, bound] by "
    "construction (clamp of current + error to +-bound, minus current). SERVO-2: the only bodies of the Kalman "
    "module that call clock methods are change_frequency, ensure_freq_init and step. SERVO-3: step() is called "
    "only where |offset| < step_threshold is false on every path, with that same offset, and passes its negation "
    "to Clock::step_clock; change_frequency(target) on the other branch gets a target clamped to +-max_steer. "
    "SERVO-4: demobilize takes the filter by value, reaches at most one set_frequency call, always through "
    "change_frequency (the clamp); set_forced_port_state passes the old filter to demobilize and keeps no copy "
    "(also the W-DEMOB compile-fail witness). SERVO-5: BasicFilter's clock calls are enumerated. SERVO-6: a Kalman "
    "servo that never received a sync/delay offset sample cannot command the frequency (ensure_freq_init only under "
    "an offset sample; set_frequency only under cur_frequency = Some; no other writer makes it Some). SERVO-7 "
    "(finiteness, sanitizer dominance): every set_frequency / step_clock call of either filter has a constant "
    "argument, an argument that is fixed-point Duration arithmetic only, or is reached only under an is_finite() "
    "literal on the value the argument is computed from."
    ' SERVO-10 (= C08 ROLE-8): the port state changes only through set_forced_port_state, the place that replaces and demobilizes the servo.'
)
NOT_DECIDED = ("the numerics behind the commands: whether the filter state itself stays finite, the value of the bound "
               "check under f64 rounding (cur + (bound - cur) can exceed the bound by one ulp), the magnitude of a step")


FLOAT_TO_DURATION = ("from_seconds",)


def _float_terms(t, out):
    """sub-terms of a Duration-typed tree that come from a floating point value"""
    t = df.strip(t)
    if t[0] == "call":
        if t[2] in FLOAT_TO_DURATION and len(t[3]) == 1:
            x = df.strip(t[3][0])
            if x[0] != "const":
                out.append(x)
            return
        for a in t[3]:
            _float_terms(a, out)
    elif t[0] in ("bin",):
        _float_terms(t[2], out)
        _float_terms(t[3], out)
    elif t[0] == "un":
        _float_terms(t[2], out)
    elif t[0] in ("ref", "deref", "cast"):
        _float_terms(t[-1] if t[0] != "cast" else t[2], out)


def _unneg(t):
    t = df.strip(t)
    while (t[0] == "un" and t[1] == "Neg") or (t[0] == "call" and t[2] == "neg" and len(t[3]) == 1):
        t = df.strip(t[2] if t[0] == "un" else t[3][0])
    return t


def check_finite(rep, prog):
    CLOCK = "statime::clock::Clock"
    n = 0
    for b in sorted(prog.bodies.values(), key=lambda x: x.key):
        if b.unit.name != "statime-lib" or b.is_test() or "::filters::" not in b.key:
            continue
        c = None
        for bi, t, cal in mir.iter_calls(b):
            if cal.get("trait") != CLOCK or cal["name"] not in ("set_frequency", "step_clock"):
                continue
            c = c or cnd.conds(prog, b)
            arg = df.strip(c.prov.op_tree(t["args"][1]))
            where = fc.where(b, t["sp"][1])
            construct = "%s(%s)" % (cal["name"], df.canon(arg, b)[:60])
            n += 1
            if arg[0] == "const":
                rep.ok("SERVO-7", b.key, construct, detail="constant", where=where)
                continue
            checked = set()
            for l in c.must_literals(bi):
                if l[0] == "bool" and l[2] is True:
                    tr = df.strip(l[1])
                    if tr[0] == "call" and tr[2] == "is_finite" and len(tr[3]) == 1:
                        checked.add(df.canon(_unneg(tr[3][0]), b))
            if cal["name"] == "set_frequency":
                need = [arg]
            else:
                need = []
                _float_terms(arg, need)
                if not need:
                    rep.ok("SERVO-7", b.key, construct, detail="Duration arithmetic only: finite by type", where=where)
                    continue
            missing = [df.canon(x, b) for x in need if df.canon(_unneg(x), b) not in checked]
            if not missing:
                rep.ok("SERVO-7", b.key, construct, detail={"is_finite_checked": sorted(checked)}, where=where)
            else:
                rep.violation("SERVO-7", b.key, construct,
                              "%s hands `%s` to the clock; no is_finite() check of that value holds on every path to "
                              "the call (checked here: %s): a NaN/infinite filter state (e.g. 0/0 from repeated event "
                              "times or zero-variance samples) becomes a clock command" % (
                                  cal["name"], "`, `".join(missing), sorted(checked) or "nothing"), where=where)
    if n == 0:
        rep.anchor_missing("SERVO-7", "no Clock::set_frequency/step_clock call found in statime::filters")


def check_servo6(rep, prog, kal):
    from sa.stores import stores
    n_init = 0
    for b in kal:
        c = None
        for bi, t, cal in mir.iter_calls(b):
            if cal["name"] == "ensure_freq_init":
                c = c or cnd.conds(prog, b)
                lits = [cnd.lit_canon(l, b) for l in c.must_literals(bi)]
                ok = any(re.fullmatch(r"\w+\.raw_(sync|delay)_offset in \{Some\}", l) for l in lits)
                n_init += 1
                if ok:
                    rep.ok("SERVO-6", b.key, "ensure_freq_init under an offset sample", detail=lits, where=fc.where(b, t["sp"][1]))
                else:
                    rep.violation("SERVO-6", b.key, "ensure_freq_init call",
                                  "ensure_freq_init (programs 0 ppm and enables steering) is called under %s, not only "
                                  "when the measurement carries a sync/delay offset: a fresh servo fed peer-delay-only "
                                  "measurements (port no longer slave) starts commanding the clock" % (lits or "no condition"),
                                  where=fc.where(b, t["sp"][1]))
        # writers of cur_frequency
        sts, pv = stores(b)
        for s_ in sts:
            if s_["lhs"].endswith("cur_frequency") and s_["lhs"].startswith("self"):
                c = c or cnd.conds(prog, b)
                val = df.canon(s_["tree"], b)
                if val.startswith("None"):
                    continue
                lits = [cnd.lit_canon(l, b) for l in c.must_literals(s_["bb"])]
                if b.name == "ensure_freq_init" or "self.cur_frequency in {Some}" in lits:
                    rep.ok("SERVO-6", b.key, "cur_frequency <- %s" % val[:40], detail=lits, where=fc.where(b, s_["line"]))
                else:
                    rep.violation("SERVO-6", b.key, "cur_frequency writer",
                                  "cur_frequency is set to `%s` in %s under %s: steering becomes enabled outside "
                                  "ensure_freq_init" % (val[:60], b.name, lits), where=fc.where(b, s_["line"]))
        if b.name == "change_frequency":
            for bi, t, cal in mir.iter_calls(b):
                if cal["name"] == "set_frequency":
                    c = c or cnd.conds(prog, b)
                    lits = [cnd.lit_canon(l, b) for l in c.must_literals(bi)]
                    if "self.cur_frequency in {Some}" in lits:
                        rep.ok("SERVO-6", b.key, "set_frequency under cur_frequency = Some", where=fc.where(b, t["sp"][1]))
                    else:
                        rep.violation("SERVO-6", b.key, "set_frequency gate", "change_frequency programs the clock without "
                                      "cur_frequency being Some (%s)" % lits, where=fc.where(b, t["sp"][1]))
    if n_init == 0:
        rep.anchor_missing("SERVO-6", "no call of ensure_freq_init found")


def _method_form(cl, cur):
    """`self.clamp_adjustment(cur, _)`: the bound is read inside the method (checked there)"""
    m = re.fullmatch(r"clamp_adjustment\(self, (.+?), (.+)\)", cl)
    return bool(m and m.group(1) == cur)


def _state_writes(ctx):
    rep = ctx.report
    rep.rule("SERVO-10", "the port state changes only through set_forced_port_state, the one place that replaces and "
                         "demobilizes the servo when the slave state is left - shared with C08 ROLE-8", floor=1)
    fc.check_state_writes(rep, ctx.prog("default"), "SERVO-10")


def run(ctx):
    _run(ctx)
    _state_writes(ctx)
    import witness
    witness.report(ctx, "C13")


def _run(ctx):
    rep = ctx.report
    prog = ctx.prog("default")
    cg = callgraph(prog)
    rep.rule("SERVO-1", "every Kalman set_frequency argument is 0.0 or cur + clamp_adjustment(cur, _, max_freq_offset)", floor=3)
    rep.rule("SERVO-2", "only change_frequency / ensure_freq_init / step touch the clock in the Kalman servo", floor=3)
    rep.rule("SERVO-3", "step only at or above the threshold, with the negated offset; slew target clamped", floor=3)
    rep.rule("SERVO-4", "demobilize consumes the filter and issues at most one clamped frequency command", floor=3)
    rep.rule("SERVO-5", "BasicFilter clock calls enumerated", floor=3)
    rep.rule("SERVO-7", "every frequency / step handed to the clock by a filter is a constant, finite by type (fixed-point "
                        "Duration arithmetic), or checked with is_finite() on every path to the call", floor=6)
    rep.rule("SERVO-8", "the frequency programmed by the Kalman servo is itself clamped to +-max_freq_offset (exact in "
                        "floating point), not only the adjustment", floor=1)
    rep.rule("SERVO-6", "a Kalman servo that never received an offset sample cannot command the clock frequency: "
                        "ensure_freq_init only under a sync/delay offset sample, set_frequency in change_frequency "
                        "only under cur_frequency = Some, no other writer makes cur_frequency Some", floor=4)
    CLOCK = "statime::clock::Clock"
    kal = [b for b in prog.bodies.values() if b.unit.name == "statime-lib" and not b.is_test() and "filters::kalman" in b.key]
    # ---------------- SERVO-1 / SERVO-2
    callers = {}
    for b in kal:
        pv = None
        for bi, t, cal in mir.iter_calls(b):
            if cal.get("trait") == CLOCK and cal["name"] in ("set_frequency", "step_clock", "set_properties", "now"):
                owner = b
                while owner.is_closure:
                    owner = cg.lookup(owner.unit, owner.parent) or owner
                    if not owner.is_closure:
                        break
                callers.setdefault(owner.name, []).append((b, bi, t, cal))
                if cal["name"] == "set_frequency":
                    pv = pv or df.Prov(b)
                    arg = df.strip(pv.op_tree(t["args"][1]))
                    s = df.canon(arg, b)
                    where = fc.where(b, t["sp"][1])
                    if arg == ("const", 0.0):
                        rep.ok("SERVO-1", b.key, "set_frequency(0.0)", where=where)
                        continue
                    form = df.lin(arg, b)
                    ok = False
                    if len(form) == 2 and all(v == 1 for v in form.values()):
                        ks = sorted(form.keys(), key=len)
                        cur, cl = ks[0], ks[1]
                        m = re.fullmatch(r"clamp_adjustment\((.+?), (.+), (.+?)\)", cl)
                        if m and m.group(1) == cur and m.group(3).endswith("config.max_freq_offset"):
                            ok = True
                        if _method_form(cl, cur):
                            ok = True
                    # SERVO-8: in floating point cur + (bound - cur) can exceed bound by one ulp; the programmed value
                    # itself must be the result of a clamp / min-max to +-max_freq_offset
                    a8 = arg
                    ok8 = False
                    if a8[0] == "call" and a8[2] == "clamp" and len(a8[3]) == 3:
                        lo, hi = df.canon(a8[3][1], b), df.canon(a8[3][2], b)
                        ok8 = hi.endswith("config.max_freq_offset") and lo == "neg(%s)" % hi
                        inner = df.strip(a8[3][0])
                        form = df.lin(inner, b)
                        ok = False
                        if len(form) == 2 and all(v == 1 for v in form.values()):
                            ks = sorted(form.keys(), key=len)
                            cur, cl = ks[0], ks[1]
                            m = re.fullmatch(r"clamp_adjustment\((.+?), (.+), (.+?)\)", cl)
                            ok = bool(m and m.group(1) == cur and m.group(3).endswith("config.max_freq_offset")) or \
                                _method_form(cl, cur)
                    if ok8:
                        rep.ok("SERVO-8", b.key, "programmed frequency is clamp(_, -max_freq_offset, max_freq_offset)", where=where)
                    else:
                        rep.violation("SERVO-8", b.key, "programmed frequency clamped itself",
                                      "the frequency handed to the clock is `%s`: the bound is enforced only on the "
                                      "adjustment (current + (bound - current)), which in f64 can exceed the bound by one "
                                      "ulp (e.g. current = -376.76736994010565, bound = 400 gives 400.00000000000006)" % s[:160],
                                      where=where)
                    if ok:
                        rep.ok("SERVO-1", b.key, "set_frequency(cur + clamp_adjustment(cur, _, max_freq_offset))", detail=s, where=where)
                    else:
                        rep.violation("SERVO-1", b.key, "set_frequency argument",
                                      "the frequency programmed into the clock is `%s`: it does not pass through "
                                      "clamp_adjustment(current, _, config.max_freq_offset)" % s, where=where)
    check_servo6(rep, prog, kal)
    check_finite(rep, prog)
    rep.rule("SERVO-9", "leaving Slave/Faulty (or entering Faulty) replaces the port's filter and demobilizes the old one - "
                        "shared with C08 ROLE-4", floor=1)
    try:
        from rules import c08 as _c08
        sf_ = prog.one(name="set_forced_port_state", self_name="Port", crate="statime-lib")
        _sub = type("R", (), {})()
        class _Rep:
            def ok(self, rid, *a, **k): rep.ok("SERVO-9", *a, **k)
            def violation(self, rid, *a, **k): rep.violation("SERVO-9", *a, **k)
        _c08.check_role4(_Rep(), prog, sf_)
    except AnchorMissing as e:
        rep.anchor_missing("SERVO-9", str(e))
    allowed = {"change_frequency", "ensure_freq_init", "step"}
    for name, lst in sorted(callers.items()):
        for (b, bi, t, cal) in lst:
            if cal["name"] in ("set_frequency", "step_clock"):
                if name in allowed:
                    rep.ok("SERVO-2", b.key, "%s in %s" % (cal["name"], name), where=fc.where(b, t["sp"][1]))
                else:
                    rep.violation("SERVO-2", b.key, "%s in %s" % (cal["name"], name),
                                  "%s is called from %s, outside the clamped paths" % (cal["name"], name), where=fc.where(b, t["sp"][1]))
    # clamp_adjustment itself
    try:
        ca = prog.one(name="clamp_adjustment", crate="statime-lib")
        c = cnd.conds(prog, ca)
        pb = df._Positional(ca)
        bad = []
        nrows = 0
        # the roles of the parameters: (current, error, bound) for the free function, (self, current, error) with the
        # bound read from self.config.max_freq_offset for the method form
        A_CUR, A_ERR, A_BND = "arg1", "arg2", "arg3"
        if ca.argc == 3 and ca.local_name(1) == "self":
            A_CUR, A_ERR, A_BND = "arg2", "arg3", "arg1.config.max_freq_offset"
        for (bi, si, d) in c.d.whole.get(0, []):
            tr = c.prov.rvalue_tree(d[1]) if d[0] == "assign" else c.prov.call_tree(d[1])
            nrows += 1
            form = dict(df.lin(tr, pb))
            form[A_CUR] = form.get(A_CUR, 0) + 1          # current + result
            form = {k: v for k, v in form.items() if v != 0}
            lits = c.must_literals(bi)
            lt = sorted(cnd.lit_canon(l, ca, True) for l in lits)
            if form == {A_BND: 1} or form == {A_BND: -1}:
                continue            # exactly +bound / -bound
            if form == {A_CUR: 1, A_ERR: 1}:
                up = any(l[0] == "cmp" and l[1] in ("le", "lt") and df.lin(l[2], pb) == {A_CUR: 1, A_ERR: 1} and
                         df.lin(l[3], pb) == {A_BND: 1} for l in lits)
                lo = any(l[0] == "cmp" and l[1] in ("ge", "gt") and df.lin(l[2], pb) == {A_CUR: 1, A_ERR: 1} and
                         df.lin(l[3], pb) == {A_BND: -1} for l in lits)
                if up and lo:
                    continue
                bad.append("returns the unclamped error although current + error is not known to be within +-bound (%s)" % lt)
                continue
            bad.append("current + result = %s under %s" % (df.lin_str(form), lt))
        if not bad and nrows >= 3:
            rep.ok("SERVO-1", ca.key, "clamp_adjustment: current + result in [-bound, bound] on every path", detail={"rows": nrows}, where=ca.loc())
        else:
            rep.violation("SERVO-1", ca.key, "clamp_adjustment",
                          "clamp_adjustment no longer keeps current + adjustment within +-bound: %s" % (bad or "fewer rows than expected"),
                          where=ca.loc())
    except AnchorMissing as e:
        rep.anchor_missing("SERVO-1", str(e))

    # ---------------- SERVO-3
    try:
        steer = prog.one(name="steer", self_name="KalmanFilter", crate="statime-lib")
        c = cnd.conds(prog, steer)
        pv = c.prov
        for bi, t, cal in mir.iter_calls(steer):
            if cal["name"] == "step" and "KalmanFilter" in cal["key"]:
                lits = c.must_literals(bi)
                off = df.canon(pv.op_tree(t["args"][2]), steer)
                gate = None
                for l in lits:
                    if l[0] == "cmp" and l[1] == "ge":
                        a, b_ = df.canon(l[2], steer), df.canon(l[3], steer)
                        if a == "abs(%s)" % off and "step_threshold" in b_:
                            gate = (a, b_)
                if gate:
                    rep.ok("SERVO-3", steer.key, "step only if |offset| >= step_threshold", detail="%s ge %s" % gate,
                           where=fc.where(steer, t["sp"][1]))
                else:
                    rep.violation("SERVO-3", steer.key, "step only if |offset| >= step_threshold",
                                  "step(%s) is reachable without |%s| >= step_threshold on every path (conditions: %s), or is "
                                  "given another value than the one compared with the threshold" % (
                                      off, off, sorted(cnd.lit_canon(l, steer) for l in lits)), where=fc.where(steer, t["sp"][1]))
            if cal["name"] == "change_frequency" and "KalmanFilter" in cal["key"]:
                tgt = df.canon(pv.op_tree(t["args"][1]), steer)
                if re.fullmatch(r"clamp\(.*, neg\(self\.config\.max_steer\), self\.config\.max_steer\)", tgt):
                    rep.ok("SERVO-3", steer.key, "slew target clamped to +-max_steer", where=fc.where(steer, t["sp"][1]))
                else:
                    rep.violation("SERVO-3", steer.key, "slew target clamped to +-max_steer",
                                  "the slew target `%s` is not clamped to +-config.max_steer" % tgt[:200], where=fc.where(steer, t["sp"][1]))
        st = prog.one(name="step", self_name="KalmanFilter", crate="statime-lib")
        pvs = df.Prov(st)
        okn = False
        for bi, t, cal in mir.iter_calls(st, name="step_clock"):
            a = df.canon(pvs.op_tree(t["args"][1]), st)
            if a == "from_seconds(neg(offset))":
                okn = True
            where = fc.where(st, t["sp"][1])
        if okn:
            rep.ok("SERVO-3", st.key, "step_clock(-offset)", where=where)
        else:
            rep.violation("SERVO-3", st.key, "step_clock(-offset)", "step() does not apply the negated estimated offset", where=st.loc())
    except AnchorMissing as e:
        rep.anchor_missing("SERVO-3", str(e))

    # ---------------- SERVO-4
    try:
        dm = [b for b in prog.find(name="demobilize", self_name="KalmanFilter", crate="statime-lib")][0]
        selfty = dm.local_ty(1)
        by_value = selfty["k"] == "adt"
        calls = [(cal["name"], cal["key"]) for bi, t, cal in mir.iter_calls(dm) if not t["sp"][4]]
        cf = [c for c in calls if c[0] == "change_frequency"]
        direct = [c for c in calls if c[0] in ("set_frequency", "step_clock")]
        g = mir.cfg(dm)
        loops = any(bi in g.reachable_from(g.succ[bi][0]) for bi, t, cal in mir.iter_calls(dm, name="change_frequency") if g.succ[bi])
        if by_value and len(cf) == 1 and not direct and not loops:
            rep.ok("SERVO-4", dm.key, "by value, one clamped frequency command", where=dm.loc())
        else:
            rep.violation("SERVO-4", dm.key, "by value, one clamped frequency command",
                          "demobilize: takes self by value=%s, change_frequency calls=%d, direct clock calls=%s, in a loop=%s — "
                          "the final frequency command must go through the clamp exactly once" % (by_value, len(cf), direct, loops),
                          where=dm.loc())
        cfb = prog.one(name="change_frequency", self_name="KalmanFilter", crate="statime-lib")
        n_sf = sum(1 for bi, t, cal in mir.iter_calls(cfb, name="set_frequency"))
        gg = mir.cfg(cfb)
        inloop = any(bi in gg.reachable_from(gg.succ[bi][0]) for bi, t, cal in mir.iter_calls(cfb, name="set_frequency") if gg.succ[bi])
        if n_sf == 1 and not inloop:
            rep.ok("SERVO-4", cfb.key, "one set_frequency per change_frequency", where=cfb.loc())
        else:
            rep.violation("SERVO-4", cfb.key, "one set_frequency per change_frequency",
                          "change_frequency issues %d set_frequency calls (loop: %s)" % (n_sf, inloop), where=cfb.loc())
        sf = prog.one(name="set_forced_port_state", self_name="Port", crate="statime-lib")
        pv = df.Prov(sf)
        okd = False
        for bi, t, cal in mir.iter_calls(sf, name="demobilize"):
            a0 = mir.op_place(t["args"][0])
            if a0 is not None and t["args"][0]["k"] == "move":
                okd = True
        if okd:
            rep.ok("SERVO-4", sf.key, "old filter moved into demobilize", where=sf.loc())
        else:
            rep.violation("SERVO-4", sf.key, "old filter moved into demobilize", "the demobilized filter is not consumed", where=sf.loc())
    except (AnchorMissing, IndexError) as e:
        rep.anchor_missing("SERVO-4", str(e))

    # ---------------- SERVO-5
    n = 0
    for b in prog.bodies.values():
        if b.unit.name == "statime-lib" and not b.is_test() and "filters::basic" in b.key:
            for bi, t, cal in mir.iter_calls(b):
                if cal.get("trait") == CLOCK and cal["name"] in ("set_frequency", "step_clock"):
                    n += 1
                    rep.ok("SERVO-5", b.key, "BasicFilter %s" % cal["name"], where=fc.where(b, t["sp"][1]), nontrivial=False)
    if n == 0:
        rep.violation("SERVO-5", "<anchor>", "BasicFilter clock calls", "none found")
