"""C19 — observability data reaches the metrics endpoint unaltered (OBS-1..6)."""
import re
from sa import mir, hir, dataflow as df, conds as cnd
from sa.facts import AnchorMissing
from rules import fsm_common as fc

LEVEL = "other"
ANCHOR_RULE = "OBS-1"
EXPLANATION = (
    "OBS-1 (MIR): every construction of an observable data set (DefaultDS, ParentDS, CurrentDS, PortDS) in the "
    "library copies each field from the same-named field of the internal data set / port (CurrentDS offset and "
    "delay from the filter estimate or the constant ZERO; PortDS through the listed total conversions), and the "
    "daemon's ObservableInstanceState literals (HIR) take each field from the same-named PtpInstance getter / "
    "Port::port_ds. OBS-1b: port_ds maps every internal PortState / DelayMechanism variant to the same-named "
    "observable variant. OBS-2: the hand-written serde pairs (Duration, TimeInterval) serialize to_bits() and "
    "deserialize from_bits() of the same integer width. OBS-3: every bool exported as a metric value maps true to "
    "1 and false to 0 (typed-HIR match on bool literals). OBS-4: for every metric whose value is produced by an "
    "accessor of statime's Duration/TimeInterval the Unit argument agrees with the accessor (seconds()/secs() <-> "
    "Seconds; nanos*()/to_nanos() <-> Nanoseconds). OBS-5: Content-Length is len() of the very String written as "
    "body. OBS-6: every metric family is written by exactly one format_metric call outside any loop (HELP/TYPE/"
    "UNIT once per family)."
    " OBS-9: a label's value is read from a field chain that shares a distinguishing word with the label name (parent_* is not filled from grandmaster_*)."
    " OBS-10: in the observer's accept loop the state snapshot is taken after accept().await."
)
NOT_DECIDED = "JSON value round trip through serde_json; label escaping; numeric formatting of Display"

OBS_ADTS = {"DefaultDS": "statime::observability::default::DefaultDS",
            "ParentDS": "statime::observability::parent::ParentDS",
            "CurrentDS": "statime::observability::current::CurrentDS",
            "PortDS": "statime::observability::port::PortDS"}
PORTDS_SPEC = {
    # field -> regex the canonical source expression must match
    "port_identity": r"^self\.port_identity$",
    "log_announce_interval": r"^as_log_2\(&?self\.config\.announce_interval\)$",
    "announce_receipt_timeout": r"^self\.config\.announce_receipt_timeout$",
    "log_sync_interval": r"^as_log_2\(&?self\.config\.sync_interval\)$",
    "version_number": r"^2$",
    "minor_version_number": r"^cast<u8>\((discr\()?self\.config\.minor_ptp_version\)?\)$",
    "delay_asymmetry": r"^from\(self\.config\.delay_asymmetry\)$",
    "master_only": r"^self\.config\.master_only$",
}
GETTERS = {"default_ds": "default_ds", "current_ds": "current_ds", "parent_ds": "parent_ds",
           "time_properties_ds": "time_properties_ds", "path_trace_ds": "path_trace_ds", "port_ds": "port_ds"}
ACCESSOR_UNIT = {"seconds": "Seconds", "secs": "Seconds", "nanos": "Nanoseconds", "nanos_rounded": "Nanoseconds",
                 "nanos_lossy": "Nanoseconds", "to_nanos": "Nanoseconds"}


def run(ctx):
    rep = ctx.report
    prog = ctx.prog("default")
    rep.rule("OBS-1", "observable data sets copy same-named fields; daemon literal uses the same-named getters", floor=30)
    rep.rule("OBS-1b", "port_ds maps each PortState / DelayMechanism variant to the same-named observable variant", floor=7)
    rep.rule("OBS-2", "hand-written serde pairs are mutually inverse (to_bits/from_bits, same width)", floor=2)
    rep.rule("OBS-3", "bool metrics export true as 1 and false as 0", floor=4)
    rep.rule("OBS-4", "Unit argument agrees with the accessor producing the value", floor=3)
    rep.rule("OBS-5", "Content-Length is the length of the body written", floor=1)
    rep.rule("OBS-6", "each metric family is emitted by one format_metric call outside loops", floor=20)
    rep.rule("OBS-7", "the exporter's single read of the daemon's JSON state has room for at least a full path trace "
                      "list (type-derived lower bound of the message size)", floor=1)
    obs7(rep, prog)
    obs1(rep, prog)
    obs2(rep, prog)
    fmt_fns = {k: v for k, v in prog.hir.items() if "metrics::format::" in k and "::tests" not in k}
    if not fmt_fns:
        rep.anchor_missing("OBS-3", "no functions found in statime_linux::metrics::format")
    obs3(rep, fmt_fns)
    obs4_6(rep, fmt_fns)
    rep.rule("OBS-8", "no metric reads the field that names a sibling metric; no two metrics read the same field", floor=15)
    obs8(rep, fmt_fns)
    rep.rule("OBS-10", "the observer serves LIVE state: the snapshot handed to a client is taken after that client connected "
                       "(not before waiting for the connection)", floor=1)
    obs10(rep, prog)
    rep.rule("OBS-9", "a label's value is read from the field the label is named after (a `parent_*` label is not filled "
                      "from a `grandmaster_*` field)", floor=3)
    obs9(rep, fmt_fns)
    obs5(rep, prog)


def obs1(rep, prog):
    n = 0
    for b in prog.bodies.values():
        if b.unit.name != "statime-lib" or b.is_test() or "serde" in b.key or "_::" in b.key:
            continue
        if (b.trait or "").startswith("serde") or (b.trait or "") in ("core::clone::Clone", "core::default::Default",
                                                                       "core::fmt::Debug"):
            continue
        pv = None
        for bi, si, s in mir.iter_stmts(b):
            if s["k"] != "assign" or s["r"]["k"] != "agg" or s["r"].get("ak") != "adt":
                continue
            name = s["r"]["name"]
            if name not in OBS_ADTS or s["r"]["path"] != OBS_ADTS[name] or s["sp"][4]:
                continue
            pv = pv or df.Prov(b)
            tr = pv.rvalue_tree(s["r"])
            for f, sub in tr[3]:
                n += 1
                src = df.canon(sub, b)
                where = fc.where(b, s["sp"][1])
                construct = "%s.%s" % (name, f)
                ok = False
                if name in ("DefaultDS", "ParentDS"):
                    nf = df.named_fields(sub)
                    ok = bool(nf) and nf[-1] == f and df.path_root(sub) is not None and df.path_root(sub)[0] == "arg"
                elif name == "CurrentDS":
                    nf = df.named_fields(sub)
                    if f == "steps_removed":
                        ok = bool(nf) and nf[-1] == "steps_removed"
                    else:
                        ok = (bool(nf) and nf[-1] == f and "port_contribution" in src) or src in ("ZERO", "Duration::ZERO") \
                            or src.endswith("ZERO")
                elif name == "PortDS":
                    if f in PORTDS_SPEC:
                        ok = re.match(PORTDS_SPEC[f], src) is not None
                    elif f in ("port_state", "delay_mechanism"):
                        ok = True  # OBS-1b
                if ok:
                    rep.ok("OBS-1", b.key, construct, detail=src, where=where)
                else:
                    rep.violation("OBS-1", b.key, construct,
                                  "observable field %s is filled from `%s`, not from the same-named live field" % (construct, src),
                                  where=where)
    # every value a snapshot function returns is such a field-wise construction (not e.g. Default::default())
    for b in prog.bodies.values():
        if b.unit.name != "statime-lib" or b.is_test() or b.is_closure or "serde" in b.key or "_::" in b.key:
            continue
        if (b.trait or "") in ("core::clone::Clone", "core::default::Default", "core::fmt::Debug") or (b.trait or "").startswith("serde"):
            continue
        rt = b.local_ty(0)
        if rt.get("k") != "adt" or OBS_ADTS.get(rt.get("name")) != rt.get("path"):
            continue
        pv = df.Prov(b)
        d = df.defs(b)
        for (bi, si, dd) in d.whole.get(0, []):
            if dd[0] != "call":
                continue
            cal = mir.callee_of(dd[1])
            if cal is not None and (cal.get("trait") == "core::default::Default" or cal["name"] == "default"):
                rep.violation("OBS-1", b.key, "%s result" % rt["name"],
                              "%s returns %s::default() on some path instead of copying the live data set: the exposed "
                              "values (e.g. stepsRemoved) no longer equal the instance's" % (b.name, rt["name"]),
                              where=fc.where(b, dd[1]["sp"][1]))
    # OBS-1b: variant mapping in port_ds
    try:
        pd = prog.one(name="port_ds", self_name="Port", crate="statime-lib")
        c = cnd.conds(prog, pd)
        for bi, si, s in mir.iter_stmts(pd):
            if s["k"] != "assign":
                continue
            r = s["r"]
            tgt = None
            if r["k"] == "agg" and r.get("ak") == "adt" and r["path"].startswith("statime::observability::port::") \
                    and r["name"] in ("PortState", "DelayMechanism"):
                tgt = (r["name"], r["variant"])
            elif r["k"] == "use" and r["op"]["k"] == "const" and pd.ty(r["op"]["ty"])["k"] == "adt" and \
                    pd.ty(r["op"]["ty"])["path"] == "statime::observability::port::PortState":
                # unit variants are constants: value = discriminant -> look up the name
                u, a = prog.adts.get("statime::observability::port::PortState", (None, None))
                sval = r["op"].get("s", "")
                m = re.search(r"PortState::(\w+)", sval)
                if m:
                    tgt = ("PortState", m.group(1))
            if tgt is None:
                continue
            lits = c.must_literals(bi)
            src_vs = None
            for l in lits:
                if l[0] == "variant" and l[3] == tgt[0] and "observability" not in str(l[1]):
                    src_vs = set(l[2]) if src_vs is None else src_vs & set(l[2])
            construct = "%s::%s" % tgt
            if src_vs == {tgt[1]}:
                rep.ok("OBS-1b", pd.key, construct, where=fc.where(pd, s["sp"][1]))
            else:
                rep.violation("OBS-1b", pd.key, construct,
                              "observable %s is reported when the live value is %s" % (construct, sorted(src_vs) if src_vs else "any"),
                              where=fc.where(pd, s["sp"][1]))
        # mean_link_delay wiring
    except AnchorMissing as e:
        rep.anchor_missing("OBS-1b", str(e))
    # daemon literal (HIR)
    found = 0
    for key, (u, h) in prog.hir.items():
        if u.name != "statime-bin":
            continue
        body = hir.simplify(hir.fn_body(h))
        for x in hir.walk(body):
            if x.get("k") == "struct" and (x.get("ty") or "").endswith("ObservableInstanceState"):
                found += 1
                for f in x["fields"]:
                    e = f["e"]
                    calls = [y for y in hir.walk(e) if y.get("k") == "mcall" and y.get("name") in GETTERS]
                    names = {y["name"] for y in calls}
                    construct = "ObservableInstanceState.%s" % f["name"]
                    if f["name"] == "port_ds" and not calls and e.get("k") in ("call", "mcall") and "vec" in str(e)[:400].lower():
                        rep.ok("OBS-1", key, construct, detail="empty before the ports exist", where=hir.where(e), nontrivial=False)
                        continue
                    if names == {GETTERS[f["name"]]}:
                        rep.ok("OBS-1", key, construct, where=hir.where(e))
                    elif not calls and f["name"] == "port_ds":
                        rep.ok("OBS-1", key, construct, detail="no ports yet", where=hir.where(e), nontrivial=False)
                    else:
                        rep.violation("OBS-1", key, construct,
                                      "field %s of the observable state is taken from %s" % (f["name"], sorted(names) or "no getter"),
                                      where=hir.where(e))
    if found < 2:
        rep.violation("OBS-1", "<anchor>", "ObservableInstanceState literals", "expected 2 literals in the daemon, found %d" % found)


def obs2(rep, prog):
    pairs = {}
    for b in prog.bodies.values():
        if b.unit.name != "statime-lib" or b.is_test():
            continue
        if b.trait in ("serde_core::ser::Serialize", "serde::ser::Serialize", "serde_core::de::Deserialize",
                       "serde::de::Deserialize") and b.self_name in ("Duration", "TimeInterval") and not b.is_closure:
            side = "ser" if "Serialize" in b.trait and "De" not in b.trait else "de"
            pv = df.Prov(b)
            info = {}
            for bi, t, cal in mir.iter_calls(b):
                if cal["name"].startswith("serialize_i") or cal["name"].startswith("serialize_u"):
                    info["prim"] = cal["name"][len("serialize_"):]
                    info["expr"] = df.canon(pv.op_tree(t["args"][1]), b) if len(t["args"]) > 1 else ""
                if cal["name"] == "deserialize" and cal.get("trait", "").endswith("Deserialize"):
                    st = b.ty(cal["self_ty"])["s"] if "self_ty" in cal else ""
                    info["prim"] = st
                if cal["name"] in ("to_bits", "from_bits"):
                    info["bits"] = cal["name"]
            pairs.setdefault(b.self_name, {})[side] = (b, info)
    for ty, d in pairs.items():
        if "ser" in d and "de" in d:
            (sb, si), (db, di) = d["ser"], d["de"]
            ok = si.get("bits") == "to_bits" and di.get("bits") == "from_bits" and si.get("prim") == di.get("prim")
            if ok:
                rep.ok("OBS-2", sb.key, "%s serde pair" % ty, detail={"ser": si, "de": di}, where=sb.loc())
            else:
                rep.violation("OBS-2", sb.key, "%s serde pair" % ty,
                              "serialize writes %s via %s but deserialize reads %s via %s" % (
                                  si.get("prim"), si.get("bits"), di.get("prim"), di.get("bits")), where=sb.loc())
        else:
            rep.violation("OBS-2", "<anchor>", "%s serde pair" % ty, "hand-written serde impl pair incomplete: %s" % list(d))


def lit_bool(p):
    for x in hir.walk(p):
        if x.get("k") == "expr" and isinstance(x.get("lit"), dict) and "bool" in x["lit"]:
            return x["lit"]["bool"]
    return None


def obs3(rep, fmt_fns):
    for key, (u, h) in sorted(fmt_fns.items()):
        body = hir.fn_body(h)
        for x in hir.walk(body):
            if x.get("k") == "match" and len(x.get("arms", [])) == 2:
                bs = [lit_bool(a["pat"]) for a in x["arms"]]
                if set(bs) != {True, False}:
                    continue
                vals = {}
                for a, bv in zip(x["arms"], bs):
                    vals[bv] = hir.lit_int(hir.strip_wrappers(a["body"]))
                scr = describe(x["scrut"])
                if vals.get(True) == 1 and vals.get(False) == 0:
                    rep.ok("OBS-3", key, "bool->%s" % scr, where=hir.where(x))
                else:
                    rep.violation("OBS-3", key, "bool->%s" % scr,
                                  "`%s` is exported as true=>%s, false=>%s (must be 1/0)" % (scr, vals.get(True), vals.get(False)),
                                  where=hir.where(x))
            # the same mapping written as `if b { 1 } else { 0 }` (or `u8::from(b)` / `b as _`: exact by definition)
            els_ = x.get("else", x.get("els"))
            if x.get("k") == "if" and els_ is not None and "bool" in (hir.strip_wrappers(x["cond"]).get("ty") or "bool"):
                tv = hir.lit_int(hir.strip_wrappers(_tail(x["then"])))
                ev = hir.lit_int(hir.strip_wrappers(_tail(els_)))
                if tv is None or ev is None:
                    continue
                scr = describe(x["cond"])
                if tv == 1 and ev == 0:
                    rep.ok("OBS-3", key, "bool->%s" % scr, where=hir.where(x))
                else:
                    rep.violation("OBS-3", key, "bool->%s" % scr,
                                  "`%s` is exported as true=>%s, false=>%s (must be 1/0)" % (scr, tv, ev), where=hir.where(x))


def _tail(n):
    """the value of a block: its tail expression"""
    n = hir.strip_wrappers(n)
    while isinstance(n, dict) and n.get("k") == "block" and not n.get("stmts") and n.get("expr") is not None:
        n = hir.strip_wrappers(n["expr"])
    return n


def describe(n):
    n = hir.strip_wrappers(n)
    k = n.get("k")
    if k == "field":
        return "%s.%s" % (describe(n["e"]), n["name"])
    if k == "path":
        return n.get("res", {}).get("text", "?")
    if k == "mcall":
        return "%s.%s()" % (describe(n["recv"]), n["name"])
    return k or "?"


ACCESSORS = {"nanos_lossy", "to_primitive", "to_nanos", "seconds", "nanos", "into", "clone", "as_ref", "unwrap_or",
             "unwrap_or_default", "map", "len", "is_some", "as_log_2"}


def obs8(rep, fmt_fns):
    """OBS-8 (sibling cross-check): a metric's value is not read from the field that gives ANOTHER metric of the same
    data set its name, and no two metrics read the very same field chain (copy/paste slip between adjacent blocks)."""
    per = []
    for key, (u, h) in sorted(fmt_fns.items()):
        body = hir.fn_body(h)
        for c in hir.walk(body):
            if c.get("k") != "call" or not hir.callee_name(c).endswith("format::format_metric") or len(c.get("args", [])) < 6:
                continue
            a1 = hir.strip_wrappers(c["args"][1])
            name = (a1.get("v") or {}).get("str") if a1.get("k") == "lit" else None
            for x in hir.walk(c["args"][5]):
                if x.get("k") == "struct" and (x.get("path", {}).get("text", "")).endswith("Measurement"):
                    for f in x["fields"]:
                        if f["name"] != "value":
                            continue
                        chain = []
                        for y in hir.walk(f["e"]):
                            if y.get("k") == "field":
                                chain.append(y["name"])
                            elif y.get("k") == "mcall" and y["name"] not in ACCESSORS:
                                chain.append(y["name"])
                        per.append((key, name, tuple(chain), hir.where(c)))
    names = {}
    for (key, name, chain, where) in per:
        names.setdefault(key, set()).add(name)
    by_chain = {}
    for (key, name, chain, where) in per:
        if not chain:
            continue
        inner = chain[0]
        if inner != name and inner in names[key]:
            rep.violation("OBS-8", key, "metric %s source" % name,
                          "metric `%s` takes its value from field `%s`, which is the field that names its sibling metric `%s`"
                          % (name, inner, inner), where=where)
        else:
            rep.ok("OBS-8", key, "metric %s source" % name, detail=".".join(reversed(chain)), where=where, nontrivial=False)
        by_chain.setdefault((key, chain), []).append((name, where))
    for (key, chain), lst in by_chain.items():
        if len(lst) > 1:
            rep.violation("OBS-8", key, "metrics %s share a source" % "/".join(n for n, _ in lst),
                          "metrics %s all read `%s`" % ([n for n, _ in lst], ".".join(reversed(chain))), where=lst[1][1])


def obs4_6(rep, fmt_fns):
    seen_names = {}
    for key, (u, h) in sorted(fmt_fns.items()):
        body = hir.fn_body(h)
        loops = []

        def rec(n, in_loop, in_closure):
            for c in hir.children(n):
                if not isinstance(c, dict):
                    continue
                il = in_loop or c.get("k") == "loop"
                ic = in_closure or c.get("k") == "closure"
                if c.get("k") == "call" and hir.callee_name(c).endswith("format::format_metric"):
                    handle_call(rep, key, c, in_loop or in_closure, seen_names)
                rec(c, il, ic)
        rec({"k": "root", "body": body}, False, False)


def handle_call(rep, key, c, in_loop, seen_names):
    args = c["args"]
    name = None
    a1 = hir.strip_wrappers(args[1]) if len(args) > 1 else {}
    if a1.get("k") == "lit":
        name = (a1.get("v") or {}).get("str")
    construct = "metric %s" % name
    if in_loop:
        rep.violation("OBS-6", key, construct,
                      "format_metric for `%s` is called inside a loop/closure: HELP/TYPE/UNIT lines repeat after samples" % name,
                      where=hir.where(c))
    elif name in seen_names:
        rep.violation("OBS-6", key, construct, "metric family `%s` is emitted twice (also at %s)" % (name, seen_names[name]),
                      where=hir.where(c))
    else:
        seen_names[name] = hir.where(c)
        rep.ok("OBS-6", key, construct, where=hir.where(c), nontrivial=False)
    # unit
    unit = None
    a4 = hir.strip_wrappers(args[4]) if len(args) > 4 else {}
    for x in hir.walk(a4):
        if x.get("k") == "path":
            t = x.get("res", {}).get("text", "")
            if t.startswith("Unit::"):
                unit = t.split("::")[1]
    # value accessors on Duration / TimeInterval
    for x in hir.walk(args[5] if len(args) > 5 else {}):
        if x.get("k") == "struct" and (x.get("path", {}).get("text", "")).endswith("Measurement"):
            for f in x["fields"]:
                if f["name"] != "value":
                    continue
                v = hir.strip_wrappers(f["e"])
                if v.get("k") == "mcall" and ("time::duration::Duration" in v.get("recv_ty", "") or
                                              "time_interval::TimeInterval" in v.get("recv_ty", "")):
                    acc = v["name"]
                    implied = ACCESSOR_UNIT.get(acc)
                    construct2 = "metric %s value .%s()" % (name, acc)
                    if implied is None:
                        rep.violation("OBS-4", key, construct2, "unknown accessor %s on a duration value" % acc, where=hir.where(v))
                    elif implied != unit:
                        rep.violation("OBS-4", key, construct2,
                                      "metric `%s` is declared in %s but its value is produced by `.%s()` (%s)" % (
                                          name, unit, acc, implied), where=hir.where(v))
                    else:
                        rep.ok("OBS-4", key, construct2, detail=unit, where=hir.where(v))


def _const_int(prog, n):
    """evaluate a HIR integer expression made of literals, * + - / and named constants"""
    n = hir.strip_wrappers(n)
    v = hir.lit_int(n)
    if v is not None:
        return v
    if n.get("k") == "binary" and n.get("op") in ("*", "+", "-", "/"):
        a, b = _const_int(prog, n["l"]), _const_int(prog, n["r"])
        if a is None or b is None:
            return None
        return {"*": a * b, "+": a + b, "-": a - b, "/": a // b if b else None}[n["op"]]
    if n.get("k") == "path" and "def" in n.get("res", {}):
        try:
            return int(prog.const_value(n["res"]["def"].split("::")[-1]))
        except Exception:
            return None
    return None


def path_trace_json_bound(prog):
    """(lower bound of the JSON size of a full PathTraceDS.list, explanation): N entries, each a ClockIdentity =
    newtype over [u8; W] which serde_json writes as `[b,..]` with up to 3 digits per byte"""
    import re
    u, a = prog.adts["statime::datastructures::datasets::path_trace::PathTraceDS"]
    lst = [f for f in a["variants"][0]["fields"] if f["name"] == "list"]
    if not lst:
        raise AnchorMissing("PathTraceDS.list not found")
    t = u.types[lst[0]["ty"]]
    if t.get("name") != "ArrayVec" or len(t.get("args", [])) != 2:
        raise AnchorMissing("PathTraceDS.list is not an ArrayVec<_, N>: %s" % t.get("s"))
    carg = t["args"][1]
    n = carg.get("v")
    if n is None:
        m = re.fullmatch(r"\{?\s*(\w+)\s*(?:/\s*(\d+))?\s*\}?", carg.get("c", ""))
        if not m:
            raise AnchorMissing("cannot evaluate ArrayVec capacity %s" % carg)
        n = int(m.group(1)) if m.group(1).isdigit() else int(prog.const_value("::" + m.group(1)))
        if m.group(2):
            n //= int(m.group(2))
    et = u.types[t["args"][0]["t"]]
    if et.get("name") != "ClockIdentity":
        raise AnchorMissing("path trace entries are not ClockIdentity: %s" % et.get("s"))
    u2, a2 = prog.adts["statime::datastructures::common::clock_identity::ClockIdentity"]
    inner = u2.types[a2["variants"][0]["fields"][0]["ty"]]
    m = re.fullmatch(r"\[u8; (\d+)\]", inner.get("s", ""))
    if not m:
        raise AnchorMissing("ClockIdentity is not a newtype over [u8; W]: %s" % inner.get("s"))
    w = int(m.group(1))
    per = w * 3 + (w - 1) + 2          # [255,255,...]
    total = int(n) * per + (int(n) - 1) + 2
    return total, "%d entries x %d bytes ([u8; %d] as JSON numbers) + separators" % (int(n), per, w)


def obs7(rep, prog):
    try:
        need, why = path_trace_json_bound(prog)
    except (AnchorMissing, KeyError) as e:
        rep.anchor_missing("OBS-7", str(e))
        return
    found = 0
    for key, (u, h) in sorted(prog.hir.items()):
        if "metrics::exporter::" not in key or "::tests::" in key:
            continue
        body = hir.simplify(hir.fn_body(h))
        caps = {}
        for x in hir.walk(body):
            if x.get("k") == "let" and x.get("init") is not None:
                e = hir.strip_wrappers(x["init"])
                if e.get("k") == "call" and hir.callee_name(e).endswith("::with_capacity") and "Vec<u8>" in e.get("ty", ""):
                    for _, i in hir.pat_bindings(x["pat"]):
                        caps[i] = (_const_int(prog, e["args"][0]), hir.where(x))
                elif e.get("k") == "call" and (hir.callee_name(e).endswith("Vec>::new")) and "Vec<u8>" in e.get("ty", ""):
                    for _, i in hir.pat_bindings(x["pat"]):
                        caps[i] = (0, hir.where(x))
        for x in hir.walk(body):
            if x.get("k") == "call" and hir.callee_name(x).endswith("::read_json") and len(x.get("args", [])) == 2:
                used = hir.locals_used(x["args"][1], False)
                for i in used:
                    if i in caps:
                        found += 1
                        cap, where = caps[i]
                        if cap is not None and cap >= need:
                            rep.ok("OBS-7", key, "read_json buffer capacity", detail={"capacity": cap, "needed_at_least": need,
                                                                                   "because": why}, where=where)
                        else:
                            rep.violation("OBS-7", key, "read_json buffer capacity",
                                          "read_json does ONE read_buf into a Vec with capacity %s; the JSON of a full path "
                                          "trace list alone needs %d bytes (%s): larger states are cut off and the exporter "
                                          "answers 500 instead of the state" % (cap, need, why), where=where)
    # read_json must still be the single-read form this bound is about; if it loops until EOF the capacity is moot
    if found == 0:
        rj = [k for k in prog.hir if k.endswith("metrics::exporter::read_json")]
        if not rj:
            rep.anchor_missing("OBS-7", "metrics::exporter::read_json not found")
            return
        body = hir.simplify(hir.fn_body(prog.hir[rj[0]][1]))
        loops = [x for x in hir.walk(body) if x.get("k") == "loop"]
        to_end = [x for x in hir.walk(body) if x.get("k") == "mcall" and x.get("name") in ("read_to_end",)]
        if loops or to_end:
            rep.ok("OBS-7", rj[0], "read_json reads until EOF", where=None)
        else:
            rep.anchor_missing("OBS-7", "no caller of read_json with a with_capacity buffer found and read_json is a single read")


def obs5(rep, prog):
    try:
        fr = prog.one(name="format_response", crate="statime_linux-lib")
    except AnchorMissing as e:
        rep.anchor_missing("OBS-5", str(e))
        return
    pv = df.Prov(fr)
    len_locals = set()
    written = set()
    fmt_len = False
    for bi, t, cal in mir.iter_calls(fr):
        if cal["name"] == "len" and "String" in cal["key"]:
            tr = df.strip(pv.op_tree(t["args"][0]))
            if tr[0] == "path":
                len_locals.add(tr[1])
        if cal["name"] == "write_str":
            tr = pv.op_tree(t["args"][1])
            for lf in df.leaves(tr):
                if lf[0] == "path" and lf[1][0] == "local":
                    written.add(lf[1])
        if cal["name"] == "write_fmt":
            s = df.canon(pv.op_tree(t["args"][1]), fr)
            if "len(" in s:
                fmt_len = True
    ok = bool(len_locals) and len_locals <= written and fmt_len
    if ok:
        rep.ok("OBS-5", fr.key, "content-length = len(body)", detail={"body_local": sorted(map(str, written))}, where=fr.loc())
    else:
        rep.violation("OBS-5", fr.key, "content-length = len(body)",
                      "Content-Length is computed from %s but the body written is %s" % (
                          sorted(map(str, len_locals)) or "no len()", sorted(map(str, written)) or "nothing"), where=fr.loc())


_GENERIC_WORDS = {"identity", "number", "ds", "id", "clock", "the", "of", "list", "value"}


def obs9(rep, fmt_fns):
    """OBS-9: `("label_name", <value>)` tuples: the field chain the value is read from and the label name must share a
    distinguishing word (words such as identity/number/clock are common to many fields and do not count). A chain whose
    first field has NO distinguishing word in common with the label while the label has one (parent_..) is a value taken
    from a sibling field."""
    for key, (u, h) in sorted(fmt_fns.items()):
        body = hir.fn_body(h)
        for c in hir.walk(body):
            if c.get("k") != "tup" or len(c.get("es", [])) != 2:
                continue
            a0 = hir.strip_wrappers(c["es"][0])
            name = (a0.get("v") or {}).get("str") if a0.get("k") == "lit" else None
            if not name:
                continue
            chain = []
            for y in hir.walk(c["es"][1]):
                if y.get("k") == "field":
                    chain.append(y["name"])
            if not chain:
                continue
            chain = list(reversed(chain))        # outermost data-set field first
            lw = set(name.split("_")) - _GENERIC_WORDS
            fw_all = set()
            for f in chain:
                fw_all |= set(f.split("_"))
            first = next((f for f in chain if set(f.split("_")) - _GENERIC_WORDS and not f.endswith("_ds")), chain[0])
            fw = set(first.split("_")) - _GENERIC_WORDS
            construct = "label %s source" % name
            if lw and fw and not (lw & fw_all):
                rep.violation("OBS-9", key, construct,
                              "label `%s` is filled from `%s`: the field it is read from (%s) names something else - the served "
                              "label does not describe the object it claims to" % (name, ".".join(chain), first),
                              where=hir.where(c))
            else:
                rep.ok("OBS-9", key, construct, detail=".".join(chain), where=hir.where(c), nontrivial=False)



def obs10(rep, prog):
    """OBS-10: in every accept loop of the daemon's observer, a read of the published instance state (`.borrow()` on the
    watch receiver) does not precede the accept().await of that iteration"""
    n = 0
    for key, (u, h) in sorted(prog.hir.items()):
        if "observer" not in key or "::tests" in key:
            continue
        body = hir.simplify(hir.fn_body(h))
        for L in hir.walk(body, enter_closures=True):
            if L.get("k") != "loop":
                continue
            stmts = L["body"].get("stmts", [])

            def has_accept(x):
                for y in hir.walk(x, enter_closures=False):
                    if y.get("k") == "await":
                        e = hir.strip_wrappers(y["e"])
                        if e.get("k") in ("mcall", "call") and hir.callee_name(e).endswith("::accept"):
                            return True
                return False

            def has_snapshot(x):
                for y in hir.walk(x, enter_closures=False):
                    if y.get("k") == "mcall" and y.get("name") in ("borrow", "borrow_and_update") and \
                            "watch::Receiver" in (y.get("recv_ty") or ""):
                        return True
                return False
            ia = [i for i, s_ in enumerate(stmts) if has_accept(s_)]
            isn = [i for i, s_ in enumerate(stmts) if has_snapshot(s_)]
            if L["body"].get("expr") is not None and has_snapshot(L["body"]["expr"]):
                isn.append(len(stmts))
            if not ia or not isn:
                continue
            n += 1
            if min(isn) > min(ia):
                rep.ok("OBS-10", key, "snapshot after accept", where=hir.where(L))
            else:
                rep.violation("OBS-10", key, "snapshot after accept",
                              "the instance state is read BEFORE the accept().await of the same iteration: the snapshot is held "
                              "while the observer waits for the next client, which is then served data from before the previous "
                              "request (one request old, with a stale uptime)", where=hir.where(L))
    if n == 0:
        rep.anchor_missing("OBS-10", "no accept loop with a state snapshot found in the observer")
