"""Sharing a clause between properties: the rule is implemented once, in the module of the property it was written
for; another property that needs the same clause runs that module in a sub-report and reports the instances of that
one rule under its own rule id (as C05 BMCA-6 has always done with C11 ANN-2). Known findings recorded for the SOURCE
rule stay with the source property (they are listed there); everything else is reported under the new id too."""
import importlib, json, os
from sa.facts import AnchorMissing


def share(ctx, rep, module, src_rule, dst_rule, only=None):
    """only: optional predicate(function, construct) selecting the instances that belong to the destination clause"""
    if getattr(ctx, "is_sub", False):
        return
    from rules import c03
    mod = importlib.import_module("rules." + module)
    sub = c03.sub_report(ctx)
    sub.is_sub = True
    sub.report.prop = module.upper()
    try:
        mod.run(sub)
    except AnchorMissing as e:
        rep.anchor_missing(dst_rule, str(e))
        return
    known = set()
    try:
        kf = json.load(open(os.path.join(ctx.verif, "known_findings.json")))
        for e in kf.get("findings", []):
            if e.get("property") == module.upper() and e.get("status", "known") != "fixed":
                parts = e.get("key", "").split("|")
                if len(parts) >= 3 and parts[0] == src_rule:
                    known.add((parts[1], parts[2]))
    except (OSError, ValueError):
        pass
    for inst in sub.report.instances.get(src_rule, []):
        parts = inst["key"].split("|")
        if inst["status"] == "ok" and len(parts) >= 3 and (only is None or only(parts[1], parts[2])):
            rep.ok(dst_rule, parts[1], parts[2], detail=inst.get("detail"), where=inst.get("where"))
    for v in sub.report.violations:
        if v["rule"] != src_rule or (v["function"], v["construct"]) in known:
            continue
        if only is not None and not only(v["function"], v["construct"]) and not v["function"].startswith("<"):
            continue
        rep.violation(dst_rule, v["function"], v["construct"], v["what"], where=v.get("where"))
