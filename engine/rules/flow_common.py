"""Value-flow chains shared by C06 / C12: a quantity handed down through several functions must arrive unchanged.

check_chain(rep, prog, rid, what, start, hops, sink):
  start = (body, source predicate on the canonical argument text | parameter index)
  hops  = [(callee name, self type name), ...]: in the current function a call of that callee must receive the tracked
          value (a bare parameter of the current function, or at the first hop an expression accepted by the source
          predicate); the tracked value becomes that parameter of the callee
  sink  = predicate(body, param index) deciding that the last function really USES the parameter as intended
Transparent helpers / new functions are already inlined by the fact loader, so an extracted helper in the middle of
the chain does not break it."""
from sa import mir, dataflow as df
from sa.callgraph import callgraph
from sa.facts import AnchorMissing
from rules import fsm_common as fc


def _is_param(tree, p):
    t = df.strip(tree)
    while t[0] == "call" and t[2] in ("clone", "from", "into", "deref", "borrow") and len(t[3]) == 1:
        t = df.strip(t[3][0])
    return t == ("path", ("arg", p), ())


def _calls(prog, cg, cur, cname, cself):
    bodies = [cur] + ([] if cur.is_closure else prog.closures_of(cur))
    for b in bodies:
        for bi, t, cal in mir.iter_calls(b, name=cname):
            callee = cg.lookup(b.unit, cal.get("resolved") or cal["key"])
            if callee is not None and not callee.is_test() and (not cself or callee.self_name == cself):
                return True
    return False


def check_chain(rep, prog, rid, what, start_body, start, hops, sink=None, consequence=""):
    cg = callgraph(prog)
    cur, param = start_body, (start if isinstance(start, int) else None)
    src_pred = None if isinstance(start, int) else start
    ok = True
    hi = -1
    while hi + 1 < len(hops):
        hi += 1
        cname, cself = hops[hi]
        # a hop that was inlined by hand is skipped: the current function may call a LATER hop directly
        if hi + 1 < len(hops) and not _calls(prog, cg, cur, cname, cself):
            if any(_calls(prog, cg, cur, n2, s2) for (n2, s2) in hops[hi + 1:]):
                continue
        pv = df.Prov(cur)
        nxt = None
        seen_call = False
        bodies = [cur] + ([] if cur.is_closure else prog.closures_of(cur))
        for b in bodies:
            pvb = pv if b is cur else df.Prov(b)
            for bi, t, cal in mir.iter_calls(b, name=cname):
                callee = cg.lookup(b.unit, cal.get("resolved") or cal["key"])
                if callee is None or callee.is_test() or (cself and callee.self_name != cself):
                    continue
                seen_call = True
                for i, a in enumerate(t["args"]):
                    tr = pvb.op_tree(a)
                    hit = False
                    if param is not None and b is cur:
                        hit = _is_param(tr, param)
                    elif param is not None and b.is_closure:
                        # a closure of the current function that captured the parameter
                        t0 = df.strip(tr)
                        flds = [x for x in t0[2] if x != "*"] if t0[0] == "path" and t0[1] == ("env",) else []
                        if flds:
                            cap = flds[0]
                            nm = cap[len("_ref__"):] if cap.startswith("_ref__") else cap
                            hit = len(flds) == 1 and nm == cur.local_name(param)
                    elif param is None and src_pred is not None:
                        hit = src_pred(df.canon(tr, b))
                        if not hit and b.is_closure:
                            # the value was computed in the parent and captured by the closure
                            t0 = df.strip(tr)
                            flds = [x for x in t0[2] if x != "*"] if t0[0] == "path" and t0[1] == ("env",) else []
                            if len(flds) == 1:
                                nm = flds[0][len("_ref__"):] if flds[0].startswith("_ref__") else flds[0]
                                idx = [j for j, l_ in enumerate(cur.locals) if l_.get("name") == nm]
                                if len(idx) == 1:
                                    hit = src_pred(df.canon(pv.local_tree(idx[0]), cur))
                    if hit:
                        nxt = (callee, i + 1, fc.where(b, t["sp"][1]))
                if nxt is None:
                    args = [df.canon(pvb.op_tree(a), b) for a in t["args"]]
                    rep.violation(rid, cur.key, "%s -> %s" % (what, cname),
                                  "%s is not what %s hands to %s::%s (arguments: %s)%s" % (
                                      what, cur.key.split("::")[-1], cself, cname, args, consequence), where=fc.where(b, t["sp"][1]))
                    ok = False
        if not seen_call and nxt is None:
            rep.violation(rid, cur.key, "%s -> %s" % (what, cname),
                          "%s no longer calls %s: %s does not reach its user%s" % (cur.key.split("::")[-1], cname, what, consequence),
                          where=cur.loc())
            ok = False
        if nxt is None:
            return False
        rep.ok(rid, cur.key, "%s -> %s" % (what, cname), detail="argument %d" % nxt[1], where=nxt[2])
        cur, param = nxt[0], nxt[1]
        src_pred = None
    if sink is not None:
        r = sink(cur, param)
        if r is True:
            rep.ok(rid, cur.key, "%s used" % what, where=cur.loc())
        else:
            rep.violation(rid, cur.key, "%s used" % what, "%s%s" % (r or ("%s is not used as intended in %s" % (what, cur.key)),
                                                                   consequence), where=cur.loc())
            ok = False
    return ok


def check_ageing_step(rep, prog, rid):
    """the BMCA interval the instance was called with is the amount every record ages by"""
    try:
        st = prog.one(name="bmca", self_name="PtpInstanceState", crate="statime-lib")
        p = None
        for i in range(1, st.argc + 1):
            if st.local_ty(i)["s"].endswith("Duration"):
                p = i
        if p is None:
            raise AnchorMissing("PtpInstanceState::bmca has no Duration parameter")

        def sink(body, param):
            # `message.age += step`
            pv = df.Prov(body)
            for bi, t, cal in mir.iter_calls(body, name="add_assign"):
                if len(t["args"]) == 2 and df.canon(pv.op_tree(t["args"][0]), body).endswith(".age") and \
                        _is_param(pv.op_tree(t["args"][1]), param):
                    return True
            for bi, t, cal in mir.iter_calls(body, name="add"):
                if len(t["args"]) == 2 and df.canon(pv.op_tree(t["args"][0]), body).endswith(".age") and \
                        _is_param(pv.op_tree(t["args"][1]), param) and t["dest"]["proj"]:
                    return True
            return "the step is not what ForeignMaster::step_age adds to the age of each message"
        check_chain(rep, prog, rid, "the BMCA interval", st, p,
                    [("step_announce_age", "Port"), ("step_age", "Bmca"), ("step_age", "ForeignMasterList"),
                     ("step_age", "ForeignMaster")], sink,
                    consequence=": records would age by another amount than the time that passed between BMCA runs, so the "
                                "four-interval window shrinks or stretches (a regular master is dropped / a silent one kept)")
    except AnchorMissing as e:
        rep.anchor_missing(rid, str(e))


def check_bmca_step_source(rep, prog, rid):
    """the step PtpInstance::bmca hands down is exactly 2^log_bmca_interval seconds (fractional for sub-second intervals)"""
    try:
        pb = [b for b in prog.find(name="bmca", self_name="PtpInstance", crate="statime-lib") if not b.is_closure]
        if len(pb) != 1:
            raise AnchorMissing("PtpInstance::bmca not found")

        def src(txt):
            return txt.startswith("from_seconds(powi(2.0, ") and "log_bmca_interval" in txt and "from_secs(" not in txt
        check_chain(rep, prog, rid, "2^log_bmca_interval seconds", pb[0], src, [("bmca", "PtpInstanceState")],
                    consequence=": for sub-second announce intervals the records would age by a truncated step (0), so a "
                                "master that disappeared is never dropped and the port flaps between master and slave")
    except AnchorMissing as e:
        rep.anchor_missing(rid, str(e))


def check_record_removal(rep, prog, rid):
    """a foreign master whose last Announce aged out is REMOVED from the list (the list has 8 slots: records that are
    never removed fill it, after which a new master is ignored for ever)"""
    from sa import conds as cnd
    try:
        fl = prog.one(name="step_age", self_name="ForeignMasterList", crate="statime-lib")
        c = cnd.conds(prog, fl)
        ok = False
        n = 0
        for bi, t, cal in mir.iter_calls(fl, name="remove"):
            if "foreign_masters" not in df.canon(c.prov.op_tree(t["args"][0]), fl):
                continue
            n += 1
            for l in cnd.expand_literals(prog, fl, set(c.must_literals(bi))):
                if l[0] == "bool" and l[2] is True and df.strip(l[1])[0] == "call" and df.strip(l[1])[2] == "step_age":
                    ok = True
        for bi, t, cal in mir.iter_calls(fl, name="retain"):
            n += 1
            ok = ok or "step_age" in df.canon(c.prov.call_tree(t), fl) or any(
                any(c2["name"] == "step_age" for _, _, c2 in mir.iter_calls(cb)) for cb in prog.closures_of(fl))
        if ok:
            rep.ok(rid, fl.key, "emptied records are removed", where=fl.loc())
        else:
            rep.violation(rid, fl.key, "emptied records are removed",
                          "ForeignMasterList::step_age does not remove a record whose ForeignMaster::step_age reports that no "
                          "Announce is left (removals found: %d): every master ever heard keeps one of the %s slots, and once "
                          "they are used up a new master's Announces are ignored - the port can never become its slave" % (
                              n, "MAX_FOREIGN_MASTERS"), where=fl.loc())
    except AnchorMissing as e:
        rep.anchor_missing(rid, str(e))


def check_window_interval(rep, prog, rid):
    """the foreign-master window is counted in the port's ANNOUNCE interval"""
    try:
        pn = [b for b in prog.find(name="new", self_name="Port", crate="statime-lib") if not b.is_closure]
        if len(pn) != 1:
            raise AnchorMissing("Port::new not found")

        def src(txt):
            return "announce_interval" in txt and "sync_interval" not in txt and "delay" not in txt

        def sink_new(body, param):
            # ForeignMasterList::new stores it in own_port_announce_interval
            pv = df.Prov(body)
            for bi, si, s in mir.iter_stmts(body):
                if s["k"] == "assign" and s["r"]["k"] == "agg" and s["r"].get("name") == "ForeignMasterList":
                    tr = pv.rvalue_tree(s["r"])
                    for f, sub in tr[3]:
                        if f == "own_port_announce_interval" and _is_param(sub, param):
                            return True
            return "ForeignMasterList::new does not keep the interval it is given as own_port_announce_interval"
        cons = ": the two-Announces-in-four-intervals window would be counted in another interval than the one Announces " \
               "arrive at (a regular master never qualifies, or a silent one is kept)"
        check_chain(rep, prog, rid, "the port's announce interval", pn[0], src,
                    [("new", "Bmca"), ("new", "ForeignMasterList")], sink_new, consequence=cons)
        # ... and that stored interval is the one the purge uses
        fl = prog.one(name="step_age", self_name="ForeignMasterList", crate="statime-lib")

        def src2(txt):
            return txt.endswith("own_port_announce_interval")

        def sink_purge(body, param):
            pv = df.Prov(body)
            for bi, t, cal in mir.iter_calls(body, name="mul"):
                args = [df.canon(pv.op_tree(a), body) for a in t["args"]]
                if any(_is_param(pv.op_tree(a), param) for a in t["args"]) or \
                        any(_is_param(df.strip(pv.op_tree(a))[3][0], param) for a in t["args"]
                            if df.strip(pv.op_tree(a))[0] == "call" and len(df.strip(pv.op_tree(a))[3]) == 1):
                    return True
            return "purge_old_messages does not derive the cutoff age from the announce interval it is given"
        check_chain(rep, prog, rid, "the stored announce interval", fl, src2,
                    [("step_age", "ForeignMaster"), ("purge_old_messages", "ForeignMaster")], sink_purge, consequence=cons)
    except AnchorMissing as e:
        rep.anchor_missing(rid, str(e))
