"""Helpers shared by the FSM-based rules (C05, C08, C12, C14)."""
from sa import mir, dataflow as df, conds as cnd, fsm
from sa.callgraph import callgraph

REQUIRED_TIMERS = {
    # host contract (Port docs, statime-linux main.rs::handle_actions): which timers a state needs running
    "Master": {"ResetAnnounceTimer", "ResetSyncTimer"},
    "Slave": {"ResetAnnounceReceiptTimer", "ResetDelayRequestTimer"},
    "Listening": {"ResetAnnounceReceiptTimer"},
    "Passive": set(),
    "Faulty": set(),
}


def where(body, line):
    return "%s:%d" % (body.file, line)


def closure_site(prog, clos):
    """(parent body, block index) where the closure value is created."""
    cg = callgraph(prog)
    parent = cg.lookup(clos.unit, clos.parent) if clos.parent else None
    if parent is None:
        return None, None
    for bi, si, s in mir.iter_stmts(parent):
        if s["k"] == "assign" and s["r"]["k"] == "agg" and s["r"]["ak"] in ("closure", "coroutine") \
                and s["r"]["key"] == clos.j["key"]:
            return parent, bi
    return parent, None


def site_literals(prog, body, bb):
    """must-literals at a site; for a site inside a closure the literals at the closure's creation site in the
    (transitive) parent are added (rooted in the parent's parameters)."""
    # bool helpers such as `self.is_master()` are expanded to what they guarantee (`self.port_state in {Master}`)
    lits = set(cnd.expand_literals(prog, body, set(cnd.conds(prog, body).must_literals(bb))))
    owner = body
    cur_bb = bb
    chain = []
    while owner.is_closure:
        parent, pbb = closure_site(prog, owner)
        if parent is None or pbb is None:
            break
        chain.append((parent, pbb))
        owner, cur_bb = parent, pbb
    outer = set()
    for (parent, pbb) in chain:
        outer |= set(cnd.expand_literals(prog, parent, set(cnd.conds(prog, parent).must_literals(pbb))))
    return lits, outer, (chain[-1] if chain else (body, bb))


def kills_port_state(body, blocks):
    """Does any of `blocks` contain something that may change self.port_state (a call of set_forced_port_state, a
    whole assignment, mem::swap/replace on it)?"""
    out = []
    for bi in blocks:
        b = body.blocks[bi]
        for s in b["stmts"]:
            if s["k"] == "assign":
                pk = mir.place_key(s["p"])
                if pk[1] and pk[1][-1] == ("field", "port_state") and any(e[0] == "deref" for e in pk[1]):
                    out.append((bi, s["sp"][1], "assignment to port_state"))
        t = b["term"]
        if t["k"] == "call":
            c = mir.callee_of(t)
            if c is not None and c["name"] == "set_forced_port_state":
                out.append((bi, t["sp"][1], "set_forced_port_state"))
            if c is not None and c["name"] in ("swap", "replace", "take") and "mem" in c["path"]:
                pv = df.Prov(body)
                for a in t["args"]:
                    f = df.path_fields(pv.op_tree(a))
                    if f and f[-1] == "port_state":
                        out.append((bi, t["sp"][1], "mem::%s on port_state" % c["name"]))
    return out


def state_at_site(prog, body, bb):
    """Set of PortState variants self.port_state may have at (body, bb) + a list of kill sites between the
    dominating gate and the site (must be empty for the set to be trusted)."""
    lits, outer, (obody, obb) = site_literals(prog, body, bb)
    if obody is body:
        states = fsm.port_state_set(lits)
    else:
        states = fsm.port_state_set(outer)
    # kill check in the outermost body: blocks that are on a path entry -> ... -> site after a gate edge
    c = cnd.conds(prog, obody)
    g = mir.cfg(obody)
    kills = []
    gate_targets = []
    for (a, s) in c.dominating_edges(obb):
        for l in c.switch_literals(a, s):
            if l[0] == "variant" and l[3] == "PortState":
                gate_targets.append(s)
    if gate_targets:
        # ancestors of the site
        anc = set()
        st = [obb]
        while st:
            x = st.pop()
            if x in anc:
                continue
            anc.add(x)
            st.extend(g.pred[x])
        region = set()
        for s in gate_targets:
            region |= (g.reachable_from(s) & anc)
        region.discard(obb)
        kills = kills_port_state(obody, region)
    return states, kills, (obody, obb)


def closure_return_tree(prog, clos):
    """Expression tree of the value a closure returns (its _0), with arg2.. as the closure parameters."""
    pv = df.Prov(clos)
    return pv.local_tree(0), pv


FRESH_FIELDS = {"packet_buffer", "lifecycle"}


def check_lifecycle_transfer(rep, prog, rid, fields=None, check_pending=True):
    """Port<Running> <-> Port<InBmca> (start_bmca / end_bmca) rebuild the Port field by field: every field other than
    the scratch packet buffer and the lifecycle marker must be moved from the SAME-NAMED field of self, and end_bmca
    must hand out self.lifecycle.pending_action. (All per-port protocol state - port state, sequence generators,
    filter, delay state - crosses every BMCA run through these two functions.)"""
    from sa import dataflow as df
    from sa.facts import AnchorMissing
    n = 0
    for fn in ("start_bmca", "end_bmca"):
        try:
            b = prog.one(name=fn, self_name="Port", crate="statime-lib")
        except AnchorMissing as e:
            rep.anchor_missing(rid, str(e))
            continue
        t = df.strip(df.Prov(b).local_tree(0))
        port = t
        extra_ok = True
        if fn == "end_bmca":
            if t[0] == "agg" and t[1] == "tuple" and len(t[3]) == 2:
                port = df.strip(t[3][0][1])
                pa = df.canon(t[3][1][1], b)
                if check_pending and pa != "self.lifecycle.pending_action":
                    extra_ok = False
                    rep.violation(rid, b.key, "pending_action", "end_bmca returns `%s` as the pending actions instead of "
                                  "self.lifecycle.pending_action: timer requests recorded during the BMCA are lost" % pa,
                                  where=b.loc())
            else:
                rep.violation(rid, b.key, "result", "end_bmca no longer returns (Port, pending actions): %s" %
                              df.canon(t, b)[:120], where=b.loc())
                continue
        if not (port[0] == "agg" and port[1] == "Port"):
            rep.violation(rid, b.key, "result", "the new Port is not built by a struct expression the rule can read: %s"
                          % df.canon(port, b)[:120], where=b.loc())
            continue
        bad = []
        moved = 0
        for (f, sub) in port[3]:
            c = df.canon(sub, b)
            if f in FRESH_FIELDS or (fields is not None and f not in fields):
                continue
            if c == "self." + f:
                moved += 1
            else:
                bad.append("%s <- %s" % (f, c))
        if bad:
            rep.violation(rid, b.key, "field transfer", "%s does not carry per-port state over unchanged: %s (each field must "
                          "come from the same-named field of the consumed port)" % (fn, "; ".join(bad)), where=b.loc())
        elif extra_ok:
            n += 1
            rep.ok(rid, b.key, "field transfer", detail={"fields_moved_same_name": moved}, where=b.loc())
    return n


def check_forward_gate(rep, prog, rid):
    """every call of PortActionIterator::with_forward_tlvs (the only producer of ForwardTLV actions) is reached only
    where Bmca::register_announce_message accepted the Announce (not our own, sender on the acceptable master list).
    Shared by C07 (NI-7) and C15 (TLV-9)."""
    n = 0
    for b in sorted(prog.bodies.values(), key=lambda x: x.key):
        if b.unit.name != "statime-lib" or b.is_test():
            continue
        c = None
        for bi, t, cal in mir.iter_calls(b, name="with_forward_tlvs"):
            c = c or cnd.conds(prog, b)
            n += 1
            lits = cnd.expand_literals(prog, b, set(c.must_literals(bi)))
            ok = any(l[0] == "bool" and l[2] is True and df.strip(l[1])[0] == "call" and
                     df.strip(l[1])[2] == "register_announce_message" for l in lits)
            if ok:
                rep.ok(rid, b.key, "with_forward_tlvs under the acceptance gate", where=where(b, t["sp"][1]))
            else:
                rep.violation(rid, b.key, "with_forward_tlvs under the acceptance gate",
                              "TLVs of an Announce are turned into ForwardTLV actions although register_announce_message did not "
                              "accept it on this path (conditions: %s): TLVs from an unacceptable or own-identity sender get "
                              "forwarded" % sorted(cnd.lit_canon(l, b) for l in lits), where=where(b, t["sp"][1]))
    if n == 0:
        rep.anchor_missing(rid, "no call of with_forward_tlvs found")


def check_state_writes(rep, prog, rid):
    """port_state changes ONLY through set_forced_port_state (which replaces and demobilizes the servo when slave is
    left, and is what the FSM extraction sees): no other function assigns / swaps the field"""
    n = 0
    bad = 0
    for b in prog.bodies.values():
        if b.unit.name != "statime-lib" or b.is_test():
            continue
        owner = b
        cg = callgraph(prog)
        while owner.is_closure:
            p = cg.lookup(owner.unit, owner.parent)
            if p is None:
                break
            owner = p
        if owner.name == "set_forced_port_state":
            n += 1
            continue
        for (bi, line, what) in kills_port_state(b, range(len(b.blocks))):
            if what == "set_forced_port_state":
                continue
            bad += 1
            rep.violation(rid, b.key, "direct write of port_state",
                          "%s outside set_forced_port_state: the state changes without the servo being replaced and "
                          "demobilized (a port that left slave keeps steering) and without the transition being visible to "
                          "the state-machine rules" % what, where=where(b, line))
    if n == 0:
        rep.anchor_missing(rid, "set_forced_port_state not found")
    elif bad == 0:
        rep.ok(rid, "statime::port::<Port>", "port_state written only in set_forced_port_state")
