"""C04 — wire codec is total, lossless on defined fields and self-consistent (LEN-*, LAY-*, ENUM-*)."""
import json, os, re
from sa import mir, dataflow as df, conds as cnd, intervals as iv, layout
from sa.facts import AnchorMissing
from rules import fsm_common as fc

LEVEL = "other"
ANCHOR_RULE = "LAY-1"
EXPLANATION = (
    "LAY-1/2: for the header, the ten message bodies and the five common wire types the byte layout is extracted "
    "from the deserializer (every field of the returned struct: offset, width, byte order, bit) and from the "
    "serializer (every byte/bit written and the field it comes from); both tables must agree with each other and "
    "with engine/spec/wire_layout.json, transcribed from IEEE 1588-2019 Clause 13 independently of the code; "
    "reserved ranges must be written as zero. LAY-3: content_size() of every body = the spec size = the length "
    "guard of its deserializer; header 34. LEN-1 (totality): every indexing / range / copy site in the codec "
    "modules is discharged by the slice-length analysis (guards on every path, exact sub-slice lengths, "
    "interprocedural requirements satisfied at every call site) — shared with the C03 ledger. LEN-2 (declared "
    "length window): Message::deserialize parses the body and the TLV suffix from "
    "buffer.get(34..messageLength), never from the raw buffer; serialize writes messageLength = 34 + body + "
    "suffix and returns it. LEN-3: TlvSet::deserialize accepts only when nothing is left over and rejects odd "
    "lengths. ENUM-1: to_primitive / from_primitive (ClockAccuracy, TimeSource, TlvType, ManagementAction, "
    "ControlField, MessageType) are extracted as decision tables (interval partition of the octet space / value "
    "per variant) and must be mutually inverse on every named variant and agree with the spec's code points."
)
NOT_DECIDED = ("value-level equality decode(encode(decode(x))) == decode(x) for all x; behaviour on reserved code points "
               "(lossy by design)")

WIREFORMAT = "statime::datastructures::WireFormat"


def load_spec(ctx):
    with open(os.path.join(ctx.verif, "engine", "spec", "wire_layout.json")) as f:
        return json.load(f)


def find_codec(prog, tyname, spec_ent):
    if tyname == "Header":
        r = prog.one(name="deserialize_header", self_name="Header", crate="statime-lib")
        w = prog.one(name="serialize_header", self_name="Header", crate="statime-lib")
        return r, w
    if tyname.endswith("Message"):
        r = prog.one(name="deserialize_content", self_name=tyname, crate="statime-lib")
        w = prog.one(name="serialize_content", self_name=tyname, crate="statime-lib")
        return r, w
    r = [b for b in prog.find(name="deserialize", self_name=tyname, crate="statime-lib") if b.trait == WIREFORMAT]
    w = [b for b in prog.find(name="serialize", self_name=tyname, crate="statime-lib") if b.trait == WIREFORMAT]
    if len(r) != 1 or len(w) != 1:
        raise AnchorMissing("WireFormat impl for %s (found %d/%d)" % (tyname, len(r), len(w)))
    return r[0], w[0]


def atom_of(spec_atom):
    return tuple(spec_atom)


def special_reader(prog, body, rl):
    """48-bit seconds: from_be_bytes(local array) filled by copy of buffer[0..6] into [2..8]"""
    pv = df.Prov(body)
    for f, a in list(rl.items()):
        if a[0] == "expr" and a[1].startswith("from_be_bytes("):
            for bi, t, cal in mir.iter_calls(body, name="copy_from_slice"):
                s = df.canon(pv.call_tree(t), body, keep_index=True)
                m = re.fullmatch(r"copy_from_slice\(index_mut\(\w+, Range\{start: 2, end: 8\}\), index\(buffer, Range\{start: (\d+), end: (\d+)\}\)\)", s)
                if m:
                    rl[f] = ("be48", int(m.group(1)), int(m.group(2)) - int(m.group(1)))
        if a[0] == "bytes":
            rl[f] = ("bytes", a[1], a[2])
    return rl


def special_writer(wl):
    out = []
    for (a, src) in wl:
        if a[0] == "expr":
            m = re.fullmatch(r"copy_from_slice\(index_mut\(buffer, Range\{start: (\d+), end: (\d+)\}\), index\((?:cast<&\[u8\]>\()?to_be_bytes\((self\.\w+)\)\)?, Range\{start: 2, end: 8\}\)\)", a[2] if len(a) > 2 else "")
            if m:
                out.append((("be48", int(m.group(1)), int(m.group(2)) - int(m.group(1))), m.group(3)))
                continue
        out.append((a, src))
    return out


def run(ctx):
    rep = ctx.report
    prog = ctx.prog("default")
    spec = load_spec(ctx)
    rep.rule("LAY-1", "writer and reader agree on offset/width/order/bit of every field, and with Clause 13", floor=55)
    rep.rule("LAY-3", "size constants agree: content_size, deserializer length guard, spec", floor=10)
    rep.rule("LEN-1", "every indexing site of the codec is proven in bounds", floor=80)
    rep.rule("LEN-2", "body and suffix are parsed from the declared-length window; serialize declares what it wrote", floor=4)
    rep.rule("LEN-3", "TLV set accepted only if fully consumed by whole even-length TLVs", floor=2)
    rep.rule("ENUM-1", "enum <-> octet tables are mutually inverse and match the spec code points", floor=20)
    rep.rule("LEN-4", "the TLV-set validator and the TLV iterator agree on the minimum size of the last element", floor=1)
    try:
        from rules.c15 import min_len_literal, min_len_iter
        td_ = prog.one(name="deserialize", self_name="TlvSet", crate="statime-lib")
        it_ = prog.one(name="next", self_name="TlvSetIterator", crate="statime-lib")
        a_, b_ = min_len_literal(prog, td_, True), min_len_iter(prog, it_)
        if a_ == b_:
            rep.ok("LEN-4", td_.key, "validator/iterator minimum", detail={"deserialize": a_, "iterator": b_}, where=td_.loc())
        else:
            rep.violation("LEN-4", td_.key, "validator/iterator minimum",
                          "TlvSet::deserialize accepts a trailing element of %s bytes but TlvSetIterator::next stops at %s: a "
                          "message that decodes successfully loses (release) or panics on (debug) its last TLV when iterated, "
                          "and does not re-encode to its input" % (a_, b_), where=td_.loc())
    except AnchorMissing as e:
        rep.anchor_missing("LEN-4", str(e))

    # ---------------- LAY-1/2/3
    for tyname, ent in spec.items():
        if tyname.startswith("_") or tyname == "enums":
            continue
        try:
            r, w = find_codec(prog, tyname, ent)
        except AnchorMissing as e:
            rep.anchor_missing("LAY-1", str(e))
            continue
        rl = special_reader(prog, r, layout.reader_layout(prog, r))
        wl = special_writer(layout.writer_layout(prog, w))
        # normalise reader field names (strip the `header.` prefix of DeserializedHeader)
        rl = {k.split("header.")[-1] if tyname == "Header" else k: v for k, v in rl.items()}
        if "0" in rl and "self" in ent["fields"]:
            rl["self"] = rl.pop("0")

        def same(got, want):
            if got is None:
                return False
            got = tuple(got)
            if want[0] == "nested" and got[0] == "nested":
                return got[1] == want[1] and got[2] >= want[2] and got[3] == want[3]
            return got == want
        wsrc = {}
        wzero = []
        wextra = []
        for (a, src) in wl:
            if a[0] == "zero":
                wzero.append([a[1], a[2]])
            elif a[0] == "expr":
                wextra.append(a)
            elif src.startswith("self"):
                f = src[5:] if src.startswith("self.") else "self"
                if f == "0":
                    f = "self"
                wsrc.setdefault(f, []).append(a)
            else:
                wsrc.setdefault(src, []).append(a)
        for f, sa_ in ent["fields"].items():
            want = atom_of(sa_)
            got_r = rl.get(f)
            where = "%s / %s" % (r.loc(), w.loc())
            # writer
            if tyname == "Header" and f == "sdo_id":
                got_w = ("sdo",) + tuple(sorted([a[1] for a in wsrc.get("sdo_id", []) if a[0] in ("sdo_hi", "sdo_lo")]))
                want_w = ("sdo", 0, 5)
            elif tyname == "Header" and f == "message_type":
                got_w = tuple(wsrc.get("content_type", [None])[0] or ())
                want_w = want
            elif tyname == "Header" and f == "message_length":
                cands = [a for k, lst in wsrc.items() for a in lst if a[0] == "be" and "content_length" in k]
                got_w = cands[0] if cands else None
                want_w = want
            elif tyname == "Header" and f == "control_field":
                cands = [a for k, lst in wsrc.items() for a in lst if a == ("enum", 32)]
                ex = [a for a in wextra if a[1] == 32]
                got_w = ("enum", 32) if (cands or ex) else None
                want_w = want
                got_r = want  # not read back (derived from the message type)
            else:
                lst = wsrc.get(f, [])
                got_w = lst[0] if len(lst) == 1 else (tuple(lst) if lst else None)
                want_w = want
            problems = []
            if not same(got_r, want):
                problems.append("the deserializer reads it as %s" % (got_r,))
            if not same(got_w, want_w):
                problems.append("the serializer writes it as %s" % (got_w,))
            if problems:
                rep.violation("LAY-1", "%s" % r.key.rsplit("::", 1)[0], "%s.%s" % (tyname, f),
                              "field %s.%s: IEEE 1588 Clause 13 places it at %s, but %s" % (tyname, f, want, " and ".join(problems)),
                              where=where)
            else:
                rep.ok("LAY-1", r.key.rsplit("::", 1)[0], "%s.%s" % (tyname, f), detail=str(want), where=where)
        # fields the code has but the spec does not
        for f in rl:
            if f not in ent["fields"] and f not in ("header",) and not (tyname == "Header" and f in ("self",)):
                rep.violation("LAY-1", r.key.rsplit("::", 1)[0], "%s.%s" % (tyname, f),
                              "the deserializer produces a field `%s` (%s) that Clause 13 does not define for %s" % (f, rl[f], tyname),
                              where=r.loc())
        zspec = ent.get("zero", [])
        if sorted(zspec) != sorted([z for z in wzero if z in zspec]):
            rep.violation("LAY-1", w.key.rsplit("::", 1)[0], "%s.reserved" % tyname,
                          "reserved octets %s are not written as zero (zero writes: %s)" % (zspec, wzero), where=w.loc())
        elif zspec:
            rep.ok("LAY-1", w.key.rsplit("::", 1)[0], "%s.reserved" % tyname, detail=str(zspec), where=w.loc())
        # LAY-3 sizes
        if tyname.endswith("Message"):
            try:
                cs = prog.one(name="content_size", self_name=tyname, crate="statime-lib")
                d = df.defs(cs)
                v = None
                for (bi, si, dd) in d.whole.get(0, []):
                    if dd[0] == "assign" and dd[1]["k"] == "use":
                        v = mir.op_const(dd[1]["op"])
                guard = len_guard(prog, r)
                if v == ent["size"] and (guard is None or guard == ent["size"]):
                    rep.ok("LAY-3", cs.key, "%s size %d" % (tyname, ent["size"]), detail={"content_size": v, "reader_guard": guard},
                           where=cs.loc())
                else:
                    rep.violation("LAY-3", cs.key, "%s size" % tyname,
                                  "%s: spec size %d, content_size() = %s, deserializer requires %s bytes" % (
                                      tyname, ent["size"], v, guard), where=cs.loc())
            except AnchorMissing as e:
                rep.anchor_missing("LAY-3", str(e))
    try:
        hw = prog.one(name="wire_size", self_name="Header", crate="statime-lib")
        d = df.defs(hw)
        v = [mir.op_const(dd[1]["op"]) for (bi, si, dd) in d.whole.get(0, []) if dd[0] == "assign" and dd[1]["k"] == "use"]
        hr = prog.one(name="deserialize_header", self_name="Header", crate="statime-lib")
        if v == [34] and len_guard(prog, hr) == 34:
            rep.ok("LAY-3", hw.key, "Header size 34", where=hw.loc())
        else:
            rep.violation("LAY-3", hw.key, "Header size", "header wire_size %s / length guard %s, spec 34" % (v, len_guard(prog, hr)),
                          where=hw.loc())
    except AnchorMissing as e:
        rep.anchor_missing("LAY-3", str(e))

    len1(ctx, rep, prog)
    len2(rep, prog)
    len3(rep, prog)
    enum1(rep, prog, spec)


def len_guard(prog, body):
    """K such that the Ok result requires len(buffer) >= K on every path"""
    c = cnd.conds(prog, body)
    best = None
    for bi, si, s in mir.iter_stmts(body):
        if s["k"] == "assign" and s["p"]["l"] == 0 and s["r"]["k"] == "agg" and s["r"].get("variant") == "Ok":
            for l in c.must_literals(bi):
                if l[0] == "cmp" and l[1] in ("ge", "gt"):
                    a, b = df.canon(l[2], body), df.strip(l[3])
                    if ("len(buffer)" in a or "ptrmetadata(buffer)" in a) and b[0] == "const":
                        v = b[1] + (1 if l[1] == "gt" else 0)
                        best = v if best is None else max(best, v)
    return best


def len1(ctx, rep, prog):
    from rules import c03
    led = c03.Ledger(ctx, prog, "default")
    led.enumerate()
    table = c03.load_table(ctx)
    import collections
    ordn = collections.Counter()
    n = 0
    for s in led.sites:
        b = s["body"]
        base = "%s|%s" % (b.key, s["sig"])
        k = "%s|#%d" % (base, ordn[base])
        ordn[base] += 1
        if "::datastructures::" not in b.key:
            continue
        is_len = s["cls"] in ("index", "split_at", "copy_from_slice", "slice_arg", "chunks") or (
            s["cls"] == "assert" and s["t"]["msg"]["kind"] == "BoundsCheck")
        if not is_len:
            continue
        n += 1
        where = fc.where(b, s["line"])
        if s["discharge"]:
            rep.ok("LEN-1", b.key, s["sig"], detail=s["discharge"], where=where)
        elif k in table and not table[k][0].startswith("finding"):
            rep.ok("LEN-1", b.key, s["sig"], detail="reviewed (%s): %s" % table[k], where=where, nontrivial=False)
        else:
            rep.violation("LEN-1", b.key, s["sig"],
                          "indexing site of the codec is not proven in bounds: a short or malformed input can panic or read "
                          "outside the intended window", where=where)


def len2(rep, prog, rid="LEN-2", only_receive=False):
    try:
        md = prog.one(name="deserialize", self_name="Message", crate="statime-lib")
        pv = df.Prov(md)
        # the end of the window is the declared length, widened to usize by any lossless conversion (as / from / into)
        window = re.compile(r"get\(buffer, Range\{start: 34, end: (?:cast<usize>|from|into)\(.*?message_length\)\}\)")
        for bi, t, cal in mir.iter_calls(md, name="deserialize"):
            key = cal.get("resolved") or cal["key"]
            if "MessageBody" in key:
                s = df.canon(pv.op_tree(t["args"][2]), md, keep_index=True)
                ok = bool(window.search(s))
                tag = "body"
            elif "TlvSet" in key:
                s = df.canon(pv.op_tree(t["args"][0]), md, keep_index=True)
                ok = bool(window.search(s)) and "RangeFrom{start: wire_size(" in s
                tag = "suffix"
            else:
                continue
            if ok:
                rep.ok(rid, md.key, "%s from the declared window" % tag, detail=s[:200], where=fc.where(md, t["sp"][1]))
            else:
                rep.violation(rid, md.key, "%s from the declared window" % tag,
                              "the %s is parsed from `%s`, not from buffer.get(34..messageLength): octets beyond the declared "
                              "length are read" % (tag, s[:300]), where=fc.where(md, t["sp"][1]))
        # message_length >= 34 check
        c = cnd.conds(prog, md)
        okmin = False
        for bi, si, s in mir.iter_stmts(md):
            if s["k"] == "assign" and s["p"]["l"] == 0 and s["r"]["k"] == "agg" and s["r"].get("variant") == "Ok":
                for l in c.must_literals(bi):
                    if l[0] == "cmp" and l[1] == "ge" and "message_length" in df.canon(l[2], md) and df.strip(l[3]) == ("const", 34):
                        okmin = True
        if okmin:
            rep.ok(rid, md.key, "messageLength >= 34", where=md.loc())
        else:
            rep.violation(rid, md.key, "messageLength >= 34", "a declared length below the header size is not rejected", where=md.loc())
        if only_receive:
            return
        ms = prog.one(name="serialize", self_name="Message", crate="statime-lib")
        pvs = df.Prov(ms)
        oks = False
        for bi, t, cal in mir.iter_calls(ms, name="serialize_header"):
            form = df.lin(pvs.op_tree(t["args"][2]), ms)
            if form == {"wire_size(self.body)": 1, "wire_size(self.suffix)": 1}:
                oks = True
        ret = df.canon(pvs.local_tree(0), ms)
        if oks and "Ok(wire_size(self))" in ret:
            rep.ok(rid, ms.key, "declared length = header + body + suffix", where=ms.loc())
        else:
            rep.violation(rid, ms.key, "declared length = header + body + suffix",
                          "messageLength / returned size is not 34 + body + suffix (content length form ok: %s, return: %s)" % (oks, ret[:120]),
                          where=ms.loc())
    except AnchorMissing as e:
        rep.anchor_missing(rid, str(e))


def len3(rep, prog):
    try:
        td = prog.one(name="deserialize", self_name="TlvSet", crate="statime-lib")
        c = cnd.conds(prog, td)
        full = False
        for bi, si, s in mir.iter_stmts(td):
            if s["k"] == "assign" and s["p"]["l"] == 0 and s["r"]["k"] == "agg" and s["r"].get("variant") == "Ok":
                for l in c.must_literals(bi):
                    if l[0] == "bool" and l[2] is True and df.strip(l[1])[0] == "call" and df.strip(l[1])[2] == "is_empty":
                        full = True
                    if l[0] == "cmp" and l[1] == "eq" and "len(" in df.canon(l[2], td) and df.strip(l[3]) == ("const", 0):
                        full = True
        if full:
            rep.ok("LEN-3", td.key, "accepted only when fully consumed", where=td.loc())
        else:
            rep.violation("LEN-3", td.key, "accepted only when fully consumed",
                          "TlvSet::deserialize can return Ok although octets are left over after the last whole TLV: the "
                          "re-encoded message is shorter than its declared length", where=td.loc())
        odd = False
        for bi, si, s in mir.iter_stmts(td):
            if s["k"] == "assign" and s["p"]["l"] == 0 and s["r"]["k"] == "agg" and s["r"].get("variant") == "Err":
                for l in c.must_literals(bi):
                    if l[0] == "cmp" and l[1] == "ne" and "rem(" in df.canon(l[2], td) and df.strip(l[3]) == ("const", 0):
                        odd = True
        if odd:
            rep.ok("LEN-3", td.key, "odd lengths rejected", where=td.loc())
        else:
            rep.violation("LEN-3", td.key, "odd lengths rejected", "odd TLV lengthField values are not rejected", where=td.loc())
    except AnchorMissing as e:
        rep.anchor_missing("LEN-3", str(e))


def enum_tables(prog, tyname, frm_name="from_primitive", to_name="to_primitive", width=8):
    hi = 2 ** width - 1
    frm = prog.one(name=frm_name, self_name=tyname, crate="statime-lib")
    to = prog.one(name=to_name, self_name=tyname, crate="statime-lib")
    ftab, _ = iv.decision_table(frm, lambda t: t[0] == "path" and t[1] == ("arg", 1) and not [x for x in t[2] if x != "*"], 0, hi)
    # to_primitive: decided by the discriminant of self
    ent = None
    for path, (u, a) in prog.adts.items():
        if a["name"] == tyname and a["enum"] and "observability" not in path and path.startswith("statime::"):
            ent = a
    nvar = len(ent["variants"]) if ent else 64
    ttab, _ = iv.decision_table(to, lambda t: t[0] == "discr", 0, nvar - 1)
    names = {v["discr"]: v["name"] for v in ent["variants"]} if ent else {}
    to_map = {}
    for res, ivs in ttab.items():
        for (a, b) in ivs:
            for dsc in range(a, b + 1):
                to_map[names.get(dsc, str(dsc))] = res
    return frm, to, ftab, to_map


def enum1(rep, prog, spec):
    for (tyname, width) in (("ClockAccuracy", 8), ("TimeSource", 8), ("TlvType", 16), ("ManagementAction", 8)):
        try:
            frm, to, ftab, to_map = enum_tables(prog, tyname, width=width)
        except AnchorMissing as e:
            rep.anchor_missing("ENUM-1", str(e))
            continue
        inv = {}
        for res, ivs in ftab.items():
            m = re.match(r"%s::(\w+)(\(.*\))?$" % tyname, res)
            if m:
                inv[m.group(1)] = (ivs, m.group(2))
        for var, res in sorted(to_map.items()):
            where = to.loc()
            if res.lstrip("-").isdigit() or re.fullmatch(r"-?\d+", res):
                c = int(res)
                ivs = inv.get(var, ([], None))[0]
                ok = any(a <= c <= b for (a, b) in ivs)
                # reserved/catch-all variants of the decoder may legitimately contain more than the one code
                if ok:
                    rep.ok("ENUM-1", to.key, "%s::%s=0x%x" % (tyname, var, c), where=where)
                else:
                    back = [k for k, (iv2, _) in inv.items() if any(a <= c <= b for (a, b) in iv2)]
                    rep.violation("ENUM-1", to.key, "%s::%s" % (tyname, var),
                                  "%s::%s is written as 0x%x but 0x%x is read back as %s" % (tyname, var, c, c, back or "nothing"),
                                  where=where)
                sp = spec["enums"].get(tyname, {})
                if var in sp and sp[var] != c:
                    rep.violation("ENUM-1", to.key, "%s::%s code point" % (tyname, var),
                                  "%s::%s is encoded as 0x%x, IEEE 1588 assigns 0x%x" % (tyname, var, c, sp[var]), where=where)
            else:
                # payload variant: the written value is the payload (possibly plus a base)
                ivs, payload = inv.get(var, ([], None))
                consts_to = set(re.findall(r"\b\d+\b", res))
                consts_from = set(re.findall(r"\b\d+\b", payload or ""))
                if ivs and consts_to == consts_from:
                    rep.ok("ENUM-1", to.key, "%s::%s(payload)" % (tyname, var), detail={"to": res, "from": payload, "range": iv.fmt(ivs)},
                           where=where)
                elif ivs:
                    rep.violation("ENUM-1", to.key, "%s::%s(payload)" % (tyname, var),
                                  "payload variant %s::%s is written as `%s` but read back as `%s`" % (tyname, var, res, payload),
                                  where=where)
                else:
                    rep.ok("ENUM-1", to.key, "%s::%s (never decoded)" % (tyname, var), where=where, nontrivial=False)
    # MessageType: discriminants are the code points; try_from must be their inverse
    try:
        tf = [b for b in prog.find(name="try_from", self_name="MessageType", crate="statime-lib")][0]
        tab, _ = iv.decision_table(tf, lambda t: t[0] == "path" and t[1] == ("arg", 1), 0, 255)
        ent = [a for p_, (u, a) in prog.adts.items() if a["name"] == "MessageType" and p_.startswith("statime::")][0]
        codes = {v["name"]: v["discr"] for v in ent["variants"]}
        for var, code in sorted(codes.items()):
            back = [k for k, ivs in tab.items() if any(a <= code <= b for (a, b) in ivs)]
            sp = spec["enums"]["MessageType"].get(var)
            ok = any(("MessageType::%s" % var) in k or k.endswith("(%s)" % var) or ("Ok(MessageType::%s" % var) in k or var in k for k in back)
            if ok and sp == code:
                rep.ok("ENUM-1", tf.key, "MessageType::%s=0x%x" % (var, code), where=tf.loc())
            else:
                rep.violation("ENUM-1", tf.key, "MessageType::%s" % var,
                              "MessageType::%s has code 0x%x (spec 0x%s) and decodes back as %s" % (var, code, sp, back), where=tf.loc())
    except (AnchorMissing, IndexError) as e:
        rep.anchor_missing("ENUM-1", "MessageType::try_from (%s)" % e)
    # ControlField: to_primitive + From<MessageType>
    try:
        to = prog.one(name="to_primitive", self_name="ControlField", crate="statime-lib")
        ent = [a for p_, (u, a) in prog.adts.items() if a["name"] == "ControlField" and p_.startswith("statime::")][0]
        names = {v["discr"]: v["name"] for v in ent["variants"]}
        ttab, _ = iv.decision_table(to, lambda t: t[0] == "discr", 0, len(names) - 1)
        for res, ivs in ttab.items():
            for (a, b) in ivs:
                for dsc in range(a, b + 1):
                    var = names[dsc]
                    want = spec["enums"]["ControlField"][var]
                    if res.isdigit() and int(res) == want:
                        rep.ok("ENUM-1", to.key, "ControlField::%s=%d" % (var, want), where=to.loc())
                    else:
                        rep.violation("ENUM-1", to.key, "ControlField::%s" % var,
                                      "controlField for %s is written as %s, IEEE 1588 Table 42 says %d" % (var, res, want), where=to.loc())
    except (AnchorMissing, IndexError) as e:
        rep.anchor_missing("ENUM-1", "ControlField::to_primitive (%s)" % e)
