"""Shared machinery of C09 (E2E measurement) and C14 (peer delay): store tables vs engine/spec/formulas.json,
id-match gates on timestamp stores, no inheritance into a new exchange, reset after a measurement."""
import json, os, re
from sa import mir, dataflow as df, conds as cnd
from sa.stores import stores
from sa.facts import AnchorMissing


def load_spec(ctx):
    with open(os.path.join(ctx.verif, "engine", "spec", "formulas.json")) as f:
        return json.load(f)


def port_fn(prog, name):
    return prog.one(name=name, self_name="Port", crate="statime-lib")


def bodies_of(prog, fn):
    """the Port method `fn` plus the helpers it was split into: functions it calls (transitively, depth 2) that no
    rule knows by name (facts.Program.opaque_names) and that live in the port modules"""
    root = port_fn(prog, fn)
    out = [root]
    seen = {root.key}
    work = [(root, 0)]
    opaque = prog.opaque_names()
    while work:
        b, d = work.pop()
        if d >= 2:
            continue
        for bi, t, cal in mir.iter_calls(b):
            key = cal.get("resolved") or cal["key"]
            cb = prog.bodies.get(key)
            if cb is None or cb.key in seen or cb.is_closure or cal["name"] in opaque or \
                    not cb.key.startswith("statime::port::"):
                continue
            seen.add(cb.key)
            out.append(cb)
            work.append((cb, d + 1))
    return out


def norm_stores(body, sts):
    """stores with the root of a local of type Measurement spelled `result` whatever the local is called"""
    names = {}
    for i, l in enumerate(body.locals):
        nm = body.local_name(i)
        if nm and body.ty(l["ty"]).get("name") == "Measurement":
            names[nm] = "result"
    out = []
    for st in sts:
        root = st["lhs"].split(".")[0]
        if root in names and names[root] != root:
            st = dict(st, lhs=names[root] + st["lhs"][len(root):])
        out.append(st)
    return out


def norm_form(s):
    d = df.parse_lin(s)
    return tuple(sorted((k, str(v)) for k, v in d.items()))


def form_of(tree, body):
    d = df.lin(tree, body)
    return tuple(sorted((k, str(v)) for k, v in d.items())), df.lin_str(d)


def check_formulas(ctx, rid, fns, relevant_re, spec):
    """rule `rid`: every store into a measurement-relevant place in `fns` has the linear form the spec table
    prescribes, the table is exhaustive for those functions, and every table entry has a store."""
    rep = ctx.report
    prog = ctx.prog("default")
    rx = re.compile(relevant_re)
    for fn in fns:
        try:
            bodies = bodies_of(prog, fn)
        except AnchorMissing as e:
            rep.anchor_missing(rid, str(e))
            continue
        table = spec.get(fn, {})
        seen = set()
        for body in bodies:
            sts, pv = stores(body)
            sts = norm_stores(body, sts)
            for st in sts:
                lhs = st["lhs"]
                if not rx.search(lhs) or st["macro"] or st.get("inlined_from"):
                    continue
                where = "%s:%d" % (body.file, st["line"])
                if lhs not in table:
                    rep.violation(rid, body.key, "store:%s" % lhs,
                                  "store into measurement state `%s` (= %s) is not in the formula table for %s" % (
                                      lhs, df.canon(st["tree"], body), fn), where=where)
                    continue
                seen.add(lhs)
                form, txt = form_of(st["tree"], body)
                allowed = [norm_form(s) for s in table[lhs]]
                if form in allowed:
                    rep.ok(rid, body.key, "%s=%s" % (lhs, txt), where=where,
                           nontrivial=len(form) > 1 or (len(form) == 1 and not form[0][0].startswith("'")))
                else:
                    rep.violation(rid, body.key, "store:%s" % lhs,
                                  "`%s` is computed as  %s  but IEEE 1588 prescribes  %s" % (lhs, txt, " or ".join(table[lhs])),
                                  where=where, detail={"expr": df.canon(st["tree"], body)})
        for lhs in table:
            if rx.search(lhs) and lhs not in seen:
                rep.violation(rid, bodies[0].key, "missing:%s" % lhs,
                              "no store into `%s` found in %s (the table expects %s)" % (lhs, fn, table[lhs]),
                              where=bodies[0].loc())


def check_id_gates(ctx, rid, fns, state_re, ts_fields, self_state_prefix):
    """every store of a timestamp into a field of an EXISTING Measuring state is control-dependent (on every
    path) on the equality of the stored id with an id taken from the message / timestamp context"""
    rep = ctx.report
    prog = ctx.prog("default")
    for fn in fns:
        try:
            body = port_fn(prog, fn)
        except AnchorMissing as e:
            rep.anchor_missing(rid, str(e))
            continue
        c = cnd.conds(prog, body)
        sts, pv = stores(body)
        for st in sts:
            m = re.search(r"(%s)\.(%s)$" % (state_re, "|".join(ts_fields)), st["lhs"])
            if not m or st["macro"]:
                continue
            s = st["stmt"]
            p = s.get("p") or s.get("dest")
            pt = df.strip(pv.place_tree(p))
            if pt[0] != "path" or "as Measuring" not in pt[2]:
                continue  # part of a whole-state (new exchange) assignment: MEAS-2
            state_name = m.group(1)
            lits = c.must_literals(st["bb"])

            def is_state_id(t):
                f = df.path_fields(t)
                r = df.path_root(t)
                return f is not None and r == ("arg", 1) and len(f) >= 2 and f[-1] == "id" and f[-2] == state_name

            def is_external(t):
                r = df.path_root(t)
                return r is not None and r[0] == "arg" and r[1] != 1
            where = "%s:%d" % (body.file, st["line"])
            if cnd.has_cmp(lits, "eq", is_state_id, is_external):
                rep.ok(rid, body.key, "gate:%s" % st["lhs"], where=where,
                       detail=sorted(cnd.lit_str(l) for l in lits if l[0] == "cmp"))
            else:
                rep.violation(rid, body.key, "gate:%s" % st["lhs"],
                              "timestamp store into `%s` is not gated on `%s.id == <id of the message/timestamp>` on every "
                              "path; conditions that do hold: %s" % (st["lhs"], state_name,
                                                                    sorted(cnd.lit_str(l) for l in lits)), where=where)


def check_no_inherit(ctx, rid, fns, state_re, forbidden_fields):
    """a newly constructed Measuring state takes its id from the triggering message or a fresh sequence number
    and none of its fields depends on the state being replaced"""
    rep = ctx.report
    prog = ctx.prog("default")
    for fn in fns:
        try:
            body = port_fn(prog, fn)
        except AnchorMissing as e:
            rep.anchor_missing(rid, str(e))
            continue
        sts, pv = stores(body)
        for st in sts:
            if st["macro"] or not re.search(r"(%s)$" % state_re, st["lhs"]):
                continue
            w = st["whole"]
            if st["tree"][0] != "const" or "::Measuring" not in str(st["tree"][1]):
                continue
            where = "%s:%d" % (body.file, st["line"])
            bad = []
            for f, sub in w[3]:
                if df.depends_on_path(sub, lambda root, fields: root == ("arg", 1) and any(
                        x in forbidden_fields for x in fields)):
                    bad.append("%s <- %s" % (f, df.canon(sub, body)))
                if f == "id":
                    okid = False
                    s2 = df.strip(sub)
                    if s2[0] == "path" and s2[1][0] == "arg" and s2[1][1] != 1:
                        okid = True
                    if s2[0] == "call" and s2[2] == "generate":
                        okid = True
                    if not okid:
                        bad.append("id <- %s (neither the message's id nor a fresh sequence number)" % df.canon(sub, body))
            if bad:
                rep.violation(rid, body.key, "new:%s" % st["lhs"],
                              "new exchange state inherits from the replaced state / wrong id: %s" % bad, where=where)
            else:
                rep.ok(rid, body.key, "new:%s" % st["lhs"], where=where,
                       detail=df.canon(w, body))


def check_reset(ctx, rid, pairs):
    """in extract_measurement: the block that stores the consumed state's reset value post-dominates the block
    producing the corresponding measurement field"""
    rep = ctx.report
    prog = ctx.prog("default")
    try:
        bodies = bodies_of(prog, "extract_measurement")
    except AnchorMissing as e:
        rep.anchor_missing(rid, str(e))
        return
    per = []
    for body in bodies:
        sts, pv = stores(body)
        per.append((body, norm_stores(body, sts), mir.cfg(body)))
    for (meas_lhs, state_lhs, reset_values) in pairs:
        found = False
        for (body, sts, g) in per:
            ms = [s for s in sts if s["lhs"] == meas_lhs and not s["macro"]]
            rs = [s for s in sts if s["lhs"] == state_lhs and not s["macro"] and
                  any(v in df.canon(s["tree"], body) for v in reset_values)]
            for m in ms:
                found = True
                where = "%s:%d" % (body.file, m["line"])
                ok = any(r["bb"] == m["bb"] and r["idx"] > m["idx"] or (r["bb"] != m["bb"] and g.postdominates(r["bb"], m["bb"]))
                         for r in rs)
                if ok:
                    rep.ok(rid, body.key, "reset:%s->%s" % (meas_lhs, state_lhs), where=where)
                else:
                    rep.violation(rid, body.key, "reset:%s->%s" % (meas_lhs, state_lhs),
                                  "a measurement `%s` can be returned without `%s` being reset to %s: the same exchange "
                                  "would be used again" % (meas_lhs, state_lhs, reset_values), where=where)
        if not found:
            rep.violation(rid, bodies[0].key, "missing:%s" % meas_lhs, "no store into %s" % meas_lhs, where=bodies[0].loc())


def check_no_float(ctx, rid, fns, relevant_re):
    rep = ctx.report
    prog = ctx.prog("default")
    rx = re.compile(relevant_re)
    for fn in fns:
        try:
            body = port_fn(prog, fn)
        except AnchorMissing:
            continue
        sts, pv = stores(body)
        for st in sts:
            if not rx.search(st["lhs"]) or st["macro"]:
                continue
            bad = float_uses(st["tree"])
            where = "%s:%d" % (body.file, st["line"])
            if bad:
                rep.violation(rid, body.key, "float:%s" % st["lhs"],
                              "value of `%s` passes through floating point: %s" % (st["lhs"], bad), where=where)
            else:
                rep.ok(rid, body.key, "nofloat:%s" % st["lhs"], where=where, nontrivial=False)


def float_uses(t, parent=None, idx=None, out=None):
    if out is None:
        out = []
    k = t[0]
    if k == "const" and isinstance(t[1], float):
        if not (parent is not None and parent[0] == "call" and parent[2] == "div" and idx == 1):
            out.append("float constant %r" % t[1])
    elif k == "cast" and ("f64" in t[3] or "f32" in t[3] or t[1] in ("IntToFloat", "FloatToInt", "FloatToFloat")):
        out.append("cast %s" % t[1])
        float_uses(t[2], t, 0, out)
    elif k == "call":
        for i, a in enumerate(t[3]):
            float_uses(a, t, i, out)
    elif k == "bin":
        float_uses(t[2], t, 0, out)
        float_uses(t[3], t, 1, out)
    elif k in ("un", "cast"):
        float_uses(t[2], t, 0, out)
    elif k == "agg":
        for _, s in t[3]:
            float_uses(s, t, 0, out)
    elif k in ("ref", "deref", "promoted", "discr", "field"):
        float_uses(t[1], t, 0, out)
    elif k == "phi":
        for s in t[1]:
            float_uses(s, t, 0, out)
    return out
