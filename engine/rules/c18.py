"""C18 — the overlay clock behaves like a clock (OVL-1..5)."""
from sa import mir, dataflow as df, conds as cnd
from sa.stores import stores
from sa.facts import AnchorMissing
from rules import fsm_common as fc

LEVEL = "other"
ANCHOR_RULE = "OVL-1"
EXPLANATION = (
    "Statement-order and dataflow rules on OverlayClock (MIR; arithmetic normalised to linear forms). OVL-1 "
    "re-anchoring discipline: in every method that moves the anchor `last_sync` after construction, the new "
    "anchor is the underlying clock's reading `roclock.now()`, the overlay reading at that instant is computed by "
    "time_from_underlying(that reading) BEFORE last_sync and freq_scale_ppm_diff are overwritten (old anchor, old "
    "rate), and the new shift is that reading minus the new anchor (plus the requested step): the correction "
    "accumulated since the previous anchor is folded in, so the reading is continuous. OVL-2: in step_clock the "
    "requested offset enters the new shift additively with coefficient exactly 1 (the jump is exactly the "
    "request). OVL-3: step_clock returns a reading taken after the adjustment; set_frequency returns the reading at "
    "the re-anchoring instant. OVL-4: every PortTimestampToTime impl for an overlay clock converts through "
    "time_from_underlying(underlying conversion). OVL-5: time_from_underlying = roclock_time + shift + "
    "(roclock_time - last_sync) * ppm / 10^6 as a linear form over its four inputs, and now() = "
    "time_from_underlying(roclock.now())."
    " OVL-4 also covers wrappers (SharedClock<OverlayClock<..>>): they must convert through the overlay's own port_timestamp_to_time, never through underlying()."
    " OVL-6: OverlayClock::new starts as the identity map (shift 0, 0 ppm, anchored at the underlying clock's reading)."
)
NOT_DECIDED = "the numeric value of the rate (floating point rounding of elapsed * ppm / 10^6)"


def _n(txt):
    """the accessor `self.underlying()` returns `&self.roclock`: one spelling"""
    return txt.replace("underlying(self)", "self.roclock")


def run(ctx):
    rep = ctx.report
    prog = ctx.prog("default")
    rep.rule("OVL-1", "re-anchoring folds the accumulated correction, computed with the old anchor and rate", floor=2)
    rep.rule("OVL-2", "the step offset enters the shift additively with coefficient 1", floor=1)
    rep.rule("OVL-3", "the returned time is the reading after the adjustment", floor=2)
    rep.rule("OVL-4", "timestamp conversion of an overlay clock goes through time_from_underlying", floor=1)
    rep.rule("OVL-5", "time_from_underlying is the affine map over all four inputs; now() uses it", floor=2)

    rep.rule("OVL-6", "a fresh overlay is the identity map: OverlayClock::new starts with shift 0 and a frequency difference "
                      "of 0 ppm, anchored at the underlying clock's reading", floor=1)
    try:
        nw_ = [b for b in prog.find(name="new", self_name="OverlayClock", crate="statime-lib") if not b.is_closure]
        if len(nw_) != 1:
            raise AnchorMissing("OverlayClock::new not found")
        nb = nw_[0]
        pvn = df.Prov(nb)
        agg = None
        for bi, si, st in mir.iter_stmts(nb):
            if st["k"] == "assign" and st["r"]["k"] == "agg" and st["r"].get("name") == "OverlayClock":
                agg = dict(pvn.rvalue_tree(st["r"])[3])
        if agg is None:
            raise AnchorMissing("OverlayClock::new does not build an OverlayClock literal")
        fr = df._num(df.strip(agg.get("freq_scale_ppm_diff", ("unknown",))))
        sh = df.canon(agg.get("shift", ("unknown",)), nb)
        ls = df.canon(agg.get("last_sync", ("unknown",)), nb)
        problems = []
        if fr is None or float(fr) != 0.0:
            problems.append("freq_scale_ppm_diff starts at %s (a ppm DIFFERENCE: the neutral value is 0)" % (fr if fr is not None else df.canon(agg.get("freq_scale_ppm_diff", ("unknown",)), nb)))
        if not any(z in sh for z in ("from_fixed_nanos(0)", "from_nanos(0)", "ZERO", "default()", "from_secs(0)", "from_seconds(0")):
            problems.append("shift starts at `%s`" % sh)
        if not ls.startswith("now("):
            problems.append("last_sync starts at `%s`, not at the underlying clock's reading" % ls)
        if problems:
            rep.violation("OVL-6", nb.key, "initial map", "; ".join(problems) + ": the overlay drifts / is offset from the "
                          "underlying clock before it was ever adjusted", where=nb.loc())
        else:
            rep.ok("OVL-6", nb.key, "initial map", detail={"shift": sh, "freq_scale_ppm_diff": fr, "last_sync": ls}, where=nb.loc())
    except AnchorMissing as e:
        rep.anchor_missing("OVL-6", str(e))
    methods = [b for b in prog.find(self_name="OverlayClock", crate="statime-lib") if not b.is_closure]
    if not methods:
        rep.anchor_missing("OVL-1", "no OverlayClock methods found")
        return
    movers = []
    for b in methods:
        if b.name == "new":
            continue
        sts, pv = stores(b)
        ls = [s for s in sts if s["lhs"] == "self.last_sync" and not s["macro"]]
        if ls:
            movers.append((b, sts, pv, ls))
    if len(movers) < 2:
        rep.violation("OVL-1", "<anchor>", "methods moving the anchor",
                      "expected set_frequency and step_clock to re-anchor; found %s" % [m[0].name for m in movers])
    for (b, sts, pv, ls) in movers:
        g = mir.cfg(b)
        # calls that evaluate the old/new map: time_from_underlying itself, or a transparent helper whose value
        # contains such a reading (the helper's body is evaluated at the call)
        tfu = []
        for bi, t, c in mir.iter_calls(b):
            if t["sp"][4]:
                continue
            if c["name"] == "time_from_underlying" or "time_from_underlying(" in _n(df.canon(pv.call_tree(t), b)):
                tfu.append((bi, t))
        shift_st = [s for s in sts if s["lhs"] == "self.shift" and not s["macro"]]
        freq_st = [s for s in sts if s["lhs"] == "self.freq_scale_ppm_diff" and not s["macro"]]
        problems = []
        # (a) anchor value is the underlying clock's reading
        for s in ls:
            src = _n(df.canon(s["tree"], b))
            if src != "now(self.roclock)":
                problems.append("last_sync is set to `%s`, not to the underlying clock's reading roclock.now()" % src)
        # (b) a reading through the old map precedes every overwrite of anchor and rate
        def before(call_bb, st):
            return call_bb != st["bb"] and g.dominates(call_bb, st["bb"]) or (
                call_bb == st["bb"] and False)
        pre = []
        for (cb, t) in tfu:
            argt = "now(self.roclock)" if "time_from_underlying(self, now(self.roclock))" in _n(df.canon(pv.call_tree(t), b)) \
                else "?"
            ok_order = all(cb == s["bb"] and True or g.dominates(cb, s["bb"]) for s in ls + freq_st)
            # same block: call terminates its block, so stores in the same block come before it
            if any(cb == s["bb"] for s in ls + freq_st):
                ok_order = False
            if ok_order and argt == "now(self.roclock)":
                pre.append((cb, t))
        if not pre:
            problems.append("no time_from_underlying(roclock.now()) is evaluated before last_sync/freq_scale_ppm_diff are "
                            "overwritten: the correction accumulated since the previous anchor is lost")
        # (c) new shift = reading - anchor (+ offset)
        if not shift_st:
            problems.append("shift is not rewritten when the anchor moves")
        for s in shift_st:
            form = {_n(k): v for k, v in df.lin(s["tree"], b).items()}
            keys = set(form.keys())
            want = {"time_from_underlying(self, now(self.roclock))": 1, "now(self.roclock)": -1}
            rest = {k: v for k, v in form.items() if k not in want}
            okf = all(form.get(k) == v for k, v in want.items()) and all(k == "offset" for k in rest)
            if not okf:
                problems.append("new shift is `%s`, expected +time_from_underlying(roclock.now()) -roclock.now() [+offset]" %
                                df.lin_str(form))
        if problems:
            rep.violation("OVL-1", b.key, "re-anchor", "; ".join(problems), where=b.loc())
        else:
            rep.ok("OVL-1", b.key, "re-anchor", detail=[df.lin_str(df.lin(s["tree"], b)) for s in shift_st], where=b.loc())
        # OVL-2
        has_offset = any(b.local_name(l) == "offset" for l in range(1, b.argc + 1))
        if has_offset:
            coefs = [df.lin(s["tree"], b).get("offset") for s in shift_st]
            if shift_st and all(c == 1 for c in coefs):
                rep.ok("OVL-2", b.key, "offset coefficient 1", where=b.loc())
            else:
                rep.violation("OVL-2", b.key, "offset coefficient 1",
                              "the requested step does not enter the shift as +1*offset (shift := %s): the clock jumps by a "
                              "different amount" % [df.lin_str(df.lin(s["tree"], b)) for s in shift_st], where=b.loc())
        # OVL-3
        ret = df.canon(pv.local_tree(0), b)
        retcalls = [(cb, t) for (cb, t) in tfu]
        post = [cb for (cb, t) in tfu if all(g.dominates(s["bb"], cb) for s in ls + shift_st + freq_st)]
        if has_offset:
            ok3 = "time_from_underlying" in ret and bool(post) and any(
                "bb" for cb in post)
            # the returned value must come from a post-adjustment call
            ok3 = ok3 and any(df.canon(pv.call_tree(t), b) in ret or
                              (mir.callee_of(t)["name"] == "time_from_underlying" and
                               "time_from_underlying(self, %s)" % df.canon(pv.op_tree(t["args"][1]), b) in ret)
                              for (cb, t) in tfu if cb in post)
        else:
            ok3 = "time_from_underlying" in ret
        if ok3:
            rep.ok("OVL-3", b.key, "returned reading", detail=ret, where=b.loc())
        else:
            rep.violation("OVL-3", b.key, "returned reading",
                          "the returned time `%s` is not the overlay reading after the adjustment" % ret, where=b.loc())
    # OVL-5
    try:
        tf = prog.one(name="time_from_underlying", self_name="OverlayClock", crate="statime-lib")
        pv = df.Prov(tf)
        form = df.lin(pv.local_tree(0), tf)
        want = {"roclock_time": 1, "self.shift": 1,
                "mul(sub(roclock_time, self.last_sync), self.freq_scale_ppm_diff)": df._Fr(1, 1000000)}
        if form == want:
            rep.ok("OVL-5", tf.key, "affine map", detail=df.lin_str(form), where=tf.loc())
        else:
            rep.violation("OVL-5", tf.key, "affine map",
                          "time_from_underlying computes `%s`, expected roclock_time + shift + (roclock_time - last_sync) * "
                          "ppm / 10^6" % df.lin_str(form), where=tf.loc())
        nw = prog.one(name="now", self_name="OverlayClock", crate="statime-lib")
        r = _n(df.canon(df.Prov(nw).local_tree(0), nw))
        if r == "time_from_underlying(self, now(self.roclock))":
            rep.ok("OVL-5", nw.key, "now()", where=nw.loc())
        else:
            rep.violation("OVL-5", nw.key, "now()", "now() returns `%s`" % r, where=nw.loc())
    except AnchorMissing as e:
        rep.anchor_missing("OVL-5", str(e))
    # OVL-4
    n = 0
    for b in prog.bodies.values():
        if b.name == "port_timestamp_to_time" and b.self_name == "OverlayClock" and not b.is_closure:
            n += 1
            r = df.canon(df.Prov(b).local_tree(0), b)
            if r.startswith("time_from_underlying(self, port_timestamp_to_time(underlying(self)"):
                rep.ok("OVL-4", b.key, "conversion through the map", detail=r, where=b.loc())
            else:
                rep.violation("OVL-4", b.key, "conversion through the map",
                              "timestamps are converted as `%s`, not through time_from_underlying" % r, where=b.loc())
    if n == 0:
        rep.violation("OVL-4", "<anchor>", "PortTimestampToTime for OverlayClock", "impl not found")
    # wrappers of an overlay clock (SharedClock<OverlayClock<..>>) must convert through the overlay's own conversion
    for b in prog.bodies.values():
        if b.name != "port_timestamp_to_time" or b.is_closure or b.is_test() or b.self_name == "OverlayClock":
            continue
        try:
            st_ = b.ty(b.j["self_ty"])["s"] if b.j.get("self_ty") is not None else ""
        except Exception:
            st_ = ""
        if "OverlayClock" not in st_:
            continue
        r = df.canon(df.Prov(b).local_tree(0), b)
        calls = [(c_["name"], c_.get("resolved") or c_["key"]) for _, t_, c_ in mir.iter_calls(b)]
        via_overlay = any(nm == "port_timestamp_to_time" and "OverlayClock" in key for nm, key in calls)
        bypass = any(nm in ("underlying", "underlying_mut") for nm, key in calls)
        if via_overlay and not bypass:
            rep.ok("OVL-4", b.key, "wrapper converts through the overlay", detail=r, where=b.loc())
        else:
            rep.violation("OVL-4", b.key, "wrapper converts through the overlay",
                          "%s converts timestamps as `%s` (calls: %s): the overlay's map (shift and frequency) is bypassed, so "
                          "converted timestamps disagree with the clock's readings" % (st_.split("::")[-1], r, calls),
                          where=b.loc())
