"""C06 — foreign masters qualify only by sustained Announces and expire when silent (FM-1..7)."""
from sa import mir, dataflow as df, conds as cnd
from sa.effects import effects
from sa.callgraph import callgraph
from sa.facts import AnchorMissing
from rules import fsm_common as fc

LEVEL = "other"
ANCHOR_RULE = "FM-1"
EXPLANATION = (
    "FM-1: every insertion into the foreign-master records (ForeignMasterList::register_announce_message's effect "
    "sites) is, on every path, behind is_announce_message_qualified(..) == true; the record-mutating helpers "
    "(ForeignMaster::new / ForeignMaster::register_announce_message) are called from nowhere else, and nothing "
    "else pushes into foreign_masters / announce_messages. FM-2: is_announce_message_qualified returns true only "
    "if sender clock identity != own clock identity and stepsRemoved < K with the evaluated K <= 255. FM-3: a "
    "record can be handed out as a qualified (Erbest) candidate only under announce_messages.len() >= "
    "FOREIGN_MASTER_THRESHOLD with the evaluated constant >= 2; the purge cutoff is announce_interval * "
    "FOREIGN_MASTER_TIME_WINDOW with the evaluated constant == 4 and the retain predicate keeps exactly age < "
    "cutoff; the interval is the port's configured announce interval. FM-4: PtpInstanceState::bmca ages every "
    "port on every path (the ageing loop's header post-dominates the entry, the call is unconditional in the "
    "loop) and the chain Port::step_announce_age -> Bmca::step_age -> ForeignMasterList::step_age -> "
    "ForeignMaster::step_age -> purge_old_messages is unconditional; every message's age is advanced by the "
    "step. FM-5: the sequence-number freshness test uses wrapping subtraction of the two sequence ids. FM-6: the "
    "selected Erbest is re-registered under erbest == Some with its own header, message and AGE, and that age "
    "reaches the stored record unchanged through every call on the way. FM-7: a full record list drops the "
    "oldest message, never the new one."
    " FM-8: value-flow chains - the Duration PtpInstanceState::bmca is called with reaches ForeignMaster::step_age's `age += step` unchanged through Port::step_announce_age, Bmca::step_age and ForeignMasterList::step_age, and the interval Port::new hands to Bmca::new is the port's announce interval, stored by ForeignMasterList::new and used by purge_old_messages for the window."
    ' FM-9 (= C07 NI-6): a slave port whose recommendation names another master re-initialises its slave state. FM-10: ForeignMasterList::step_age removes a record whose ForeignMaster::step_age reports it empty. FM-8 also covers the source of the step: PtpInstance::bmca hands down from_seconds(2^log_bmca_interval).'
)
NOT_DECIDED = ("'within a bounded number of announce intervals' / 'never dropped while announcing regularly' as "
               "temporal statements; behaviour beyond the record capacity of 8")


def one(prog, name, self_name):
    return prog.one(name=name, self_name=self_name, crate="statime-lib")


def always_called(prog, body, callee_name):
    """Is `callee_name` called on every execution of body (unconditionally, or unconditionally in a loop whose
    header post-dominates the entry)? returns (ok, detail)"""
    g = mir.cfg(body)
    c = cnd.conds(prog, body)
    sites = [bi for bi, t, cal in mir.iter_calls(body, name=callee_name)]
    if not sites:
        # `items.iter_mut().for_each(|x| x.callee(..))` instead of a `for` loop: the closure calls it unconditionally and
        # the for_each itself runs on every execution
        pvb = df.Prov(body)
        for cb in prog.closures_of(body, recursive=False):
            gc = mir.cfg(cb)
            cs = [bi for bi, t, cal in mir.iter_calls(cb, name=callee_name)]
            if not cs or not any(gc.postdominates_returning(bi, 0) for bi in cs):
                continue
            for bj, t, cal in mir.iter_calls(body, name="for_each"):
                args = [df.strip(pvb.op_tree(a)) for a in t["args"]]
                if any(a[0] == "agg" and a[1] == "closure:" + cb.j["key"] for a in args) and g.postdominates_returning(bj, 0):
                    return True, "once per item of an unconditional for_each (bb%d)" % bj
        return False, "no call of %s" % callee_name
    for bi in sites:
        if g.postdominates_returning(bi, 0):
            return True, "unconditional (bb%d post-dominates the entry)" % bi
        lits = c.must_literals(bi)
        loop_only = bool(lits) and all(
            l[0] == "variant" and l[2] in (frozenset(["Some"]), frozenset(["None"])) and df.strip(l[1])[0] == "call"
            and df.strip(l[1])[2] == "next" for l in lits)
        if loop_only and all(l[2] == frozenset(["None"]) for l in lits):
            return True, "unconditional after the preceding loop(s)"
        if loop_only:
            # the loop header (the `next` call feeding the literal) must post-dominate the entry
            for hb, t, cal in mir.iter_calls(body, name="next"):
                if g.postdominates_returning(hb, 0) and bi in g.reachable_from(hb):
                    # and the call is not skipped inside the iteration: it post-dominates the Some edge target
                    return True, "once per iteration of a loop whose header (bb%d) post-dominates the entry" % hb
    return False, "only conditional calls: %s" % [sorted(cnd.lit_str(l) for l in c.must_literals(bi)) for bi in sites]


def check_eviction(rep, prog, rid="FM-7"):
    """a full per-master message list evicts its OLDEST entry and appends the new one at the end, so the last entry stays
    the most recent (take_qualified_announce_messages relies on that order). Shared with C11 (ANN-6)."""
    # ---------------- FM-7
    try:
        fr = one(prog, "register_announce_message", "ForeignMaster")
        c = cnd.conds(prog, fr)
        pv = c.prov
        rem = [(bi, t) for bi, t, cal in mir.iter_calls(fr, name="remove")]
        ok = False
        for (bi, t) in rem:
            idx = df.strip(pv.op_tree(t["args"][1]))
            lits = c.must_literals(bi)
            full = any(l[0] == "variant" and l[2] == frozenset(["Err"]) and "try_push" in df.tree_str(l[1]) for l in lits)
            if idx == ("const", 0) and full:
                ok = True
        if ok:
            rep.ok(rid, fr.key, "evict index 0 when full", where=fr.loc())
        else:
            rep.violation(rid, fr.key, "evict index 0 when full",
                          "a full announce message list does not evict its oldest entry (index 0) to make room", where=fr.loc())
    except AnchorMissing as e:
        rep.anchor_missing(rid, str(e))


def run(ctx):
    rep = ctx.report
    prog = ctx.prog("default")
    E = effects(prog)
    cg = callgraph(prog)
    rep.rule("FM-1", "every insertion into the foreign master records is behind the qualification gate", floor=4)
    rep.rule("FM-2", "qualification rejects own clock identity and stepsRemoved >= 255", floor=2)
    rep.rule("FM-3", "Erbest candidates need >= 2 messages inside a window of 4 announce intervals", floor=4)
    rep.rule("FM-4", "every BMCA run ages every record of every port", floor=6)
    rep.rule("FM-5", "sequence freshness uses wrapping arithmetic", floor=1)
    rep.rule("FM-6", "the selected Erbest is re-registered with its age", floor=4)
    rep.rule("FM-7", "a full message list evicts the oldest entry", floor=1)
    rep.rule("FM-8", "records age by the BMCA interval the instance was called with, and the window is counted in the "
                     "port's announce interval (value-flow chains from PtpInstanceState::bmca / Port::new to the "
                     "foreign master records)", floor=7)

    # ---------------- FM-1
    try:
        reg = one(prog, "register_announce_message", "ForeignMasterList")
        c = cnd.conds(prog, reg)
        sites = E.sites(reg)
        if not sites:
            rep.violation("FM-1", reg.key, "insertion", "no insertion site found", where=reg.loc())
        for (bi, line, kind, text) in sites:
            lits = c.must_literals(bi)
            ok = any(l[0] == "bool" and l[2] is True and df.strip(l[1])[0] == "call" and
                     df.strip(l[1])[2] == "is_announce_message_qualified" for l in lits)
            if ok:
                rep.ok("FM-1", reg.key, "%s:%s" % (kind, text), where=fc.where(reg, line))
            else:
                rep.violation("FM-1", reg.key, "%s:%s" % (kind, text),
                              "`%s` can run for an Announce that is_announce_message_qualified rejected; conditions: %s" % (
                                  text, sorted(cnd.lit_str(l) for l in lits)), where=fc.where(reg, line))
        # who may call the record-mutating helpers / push into the record vectors
        allowed_callers = {"register_announce_message", "new"}
        for b in prog.bodies.values():
            if b.unit.name != "statime-lib" or b.is_test():
                continue
            pv = None
            for bi, t, cal in mir.iter_calls(b):
                if cal["name"] in ("push", "try_push", "insert", "try_insert", "push_unchecked", "extend", "try_extend_from_slice"):
                    pv = pv or df.Prov(b)
                    f = df.named_fields(pv.op_tree(t["args"][0])) if t["args"] else None
                    rty = b.ty(mir.op_place(t["args"][0])["ty"])["s"] if t["args"] and mir.op_place(t["args"][0]) else ""
                    if (f and f[-1] in ("foreign_masters", "announce_messages")) or "ForeignAnnounceMessage" in rty and "ArrayVec" in rty and b.self_name in ("ForeignMaster",):
                        okc = b.self_name in ("ForeignMaster", "ForeignMasterList") and b.name in allowed_callers
                        construct = "%s into %s" % (cal["name"], (f[-1] if f else "messages"))
                        if okc:
                            rep.ok("FM-1", b.key, construct, where=fc.where(b, t["sp"][1]))
                        else:
                            rep.violation("FM-1", b.key, construct,
                                          "record vector is extended outside the gated registration path",
                                          where=fc.where(b, t["sp"][1]))
                if cal["key"].endswith("<ForeignMaster>::register_announce_message") or cal["key"].endswith("<ForeignMaster>::new"):
                    if not (b.self_name == "ForeignMasterList" and b.name == "register_announce_message"):
                        rep.violation("FM-1", b.key, "calls %s" % cal["name"],
                                      "ForeignMaster record is created/extended from outside ForeignMasterList::"
                                      "register_announce_message (the qualification gate)", where=fc.where(b, t["sp"][1]))
    except AnchorMissing as e:
        rep.anchor_missing("FM-1", str(e))

    # ---------------- FM-2 / FM-5
    try:
        q = one(prog, "is_announce_message_qualified", "ForeignMasterList")
        tl = cnd.returns_literals(prog, q, True)
        own = cnd.has_cmp(tl, "ne",
                          lambda t: (df.named_fields(t) or ())[-3:] == ("header", "source_port_identity", "clock_identity"),
                          lambda t: (df.named_fields(t) or ())[-2:] == ("own_port_identity", "clock_identity"))
        if own:
            rep.ok("FM-2", q.key, "own clock identity rejected", where=q.loc())
        else:
            rep.violation("FM-2", q.key, "own clock identity rejected",
                          "is_announce_message_qualified can return true for an Announce carrying the instance's own clock "
                          "identity; what must hold for `true`: %s" % sorted(cnd.lit_str(l) for l in tl), where=q.loc())
        kmax = None
        for l in tl:
            if l[0] == "cmp" and l[1] in ("lt", "le"):
                a, b_ = df.strip(l[2]), df.strip(l[3])
                if (df.named_fields(a) or ())[-1:] == ("steps_removed",) and b_[0] == "const":
                    kmax = b_[1] if l[1] == "lt" else b_[1] + 1
        if kmax is not None and kmax <= 255:
            rep.ok("FM-2", q.key, "stepsRemoved < %d" % kmax, where=q.loc())
        else:
            rep.violation("FM-2", q.key, "stepsRemoved bound",
                          "is_announce_message_qualified accepts stepsRemoved >= 255 (bound found: %s); must hold for "
                          "`true`: %s" % (kmax, sorted(cnd.lit_str(l) for l in tl)), where=q.loc())
        # FM-5
        pv = df.Prov(q)
        # semantic form: some `return false` is decided by a comparison of wrapping_sub(new id, last id) - found in the
        # path literals (helpers are transparent / expanded), not by looking for a call in this very function
        ws = []
        cq = cnd.conds(prog, q)
        rej = set()
        for (bi_, si_, d_) in cq.d.whole.get(0, []):
            if d_[0] == "assign" and d_[1]["k"] == "use" and mir.op_const(d_[1]["op"]) is False:
                rej |= set(cnd.expand_literals(prog, q, cq.must_literals(bi_)))
        for l in rej:
            if l[0] == "cmp" and l[1] in ("lt", "le", "gt", "ge"):
                for side in (l[2], l[3]):
                    x = df.strip(side)
                    if x[0] == "call" and x[2] == "wrapping_sub" and len(x[3]) == 2 and \
                            any(df.canon(a, q).endswith("sequence_id") for a in x[3]):
                        ws.append(l)
        raw = []
        for bi, t in mir.iter_terms(q, "assert"):
            m = t["msg"]
            if m["kind"] == "Overflow":
                fa = [df.named_fields(pv.op_tree(m["a"])), df.named_fields(pv.op_tree(m["b"]))]
                if any(f and f[-1] == "sequence_id" for f in fa):
                    raw.append(t["sp"][1])
        if ws and not raw:
            lits_false = cnd.returns_literals(prog, q, True)
            rep.ok("FM-5", q.key, "wrapping_sub(sequence ids)", detail=cnd.lit_canon(ws[0], q), where=q.loc())
        else:
            rep.violation("FM-5", q.key, "wrapping_sub(sequence ids)",
                          "sequence-id freshness is not computed with wrapping arithmetic (wrapping_sub sites: %d, "
                          "overflow-checked arithmetic on sequence ids at lines %s): breaks at 65535->0" % (len(ws), raw),
                          where=q.loc())
    except AnchorMissing as e:
        rep.anchor_missing("FM-2", str(e))

    # ---------------- FM-3
    try:
        tq = one(prog, "take_qualified_announce_messages", "ForeignMasterList")
        c = cnd.conds(prog, tq)
        pv = c.prov
        n = 0
        for bi, t, cal in mir.iter_calls(tq):
            if cal["name"] in ("push", "try_push", "remove", "pop", "swap_remove", "drain", "take"):
                tr = [pv.op_tree(a) for a in t["args"]]
                touches = any("announce_messages" in df.canon(x, tq) for x in tr)
                if not touches:
                    continue
                n += 1
                lits = c.must_literals(bi)
                thr = None
                for l in lits:
                    if l[0] == "cmp" and l[1] in ("ge", "gt"):
                        a, b_ = df.strip(l[2]), df.strip(l[3])
                        if a[0] == "call" and a[2] == "len" and "announce_messages" in df.canon(a, tq) and b_[0] == "const":
                            thr = b_[1] if l[1] == "ge" else b_[1] + 1
                if thr is not None and thr >= 2:
                    rep.ok("FM-3", tq.key, "%s needs len >= %d" % (cal["name"], thr), where=fc.where(tq, t["sp"][1]))
                else:
                    rep.violation("FM-3", tq.key, "%s needs len >= 2" % cal["name"],
                                  "a foreign master's Announce is taken as qualified without at least two messages in the "
                                  "window (threshold found: %s)" % thr, where=fc.where(tq, t["sp"][1]))
        if n == 0:
            rep.violation("FM-3", tq.key, "take", "no take/remove of announce messages found", where=tq.loc())
        thr_c = prog.const_value("foreign_master::FOREIGN_MASTER_THRESHOLD")
        win_c = prog.const_value("foreign_master::FOREIGN_MASTER_TIME_WINDOW")
        pm = one(prog, "purge_old_messages", "ForeignMaster")
        pvp = df.Prov(pm)
        okcut = False
        clo_key = None
        for bi, t, cal in mir.iter_calls(pm, name="retain"):
            tr = pvp.op_tree(t["args"][1])
            s = df.canon(tr, pm)
            clo = df.strip(tr)
            if clo[0] == "agg" and clo[1].startswith("closure:"):
                clo_key = clo[1][len("closure:"):]
                caps = dict(clo[3])
                for f, sub in caps.items():
                    lf = df.lin(sub, pm)
                    if list(lf.items()) == [("announce_interval", 4)] or (len(lf) == 1 and list(lf.values())[0] == 4 and
                                                                          "announce_interval" in list(lf.keys())[0]):
                        okcut = True
        if okcut and win_c == 4:
            rep.ok("FM-3", pm.key, "cutoff = announce_interval * 4", where=pm.loc())
        else:
            rep.violation("FM-3", pm.key, "cutoff = announce_interval * 4",
                          "purge cutoff is not announce_interval * FOREIGN_MASTER_TIME_WINDOW(=4): window constant %s" % win_c,
                          where=pm.loc())
        if clo_key:
            cb = cg.lookup(pm.unit, clo_key)
            tl = cnd.returns_literals(prog, cb, True) if cb is not None else set()
            keep = any(l[0] == "cmp" and l[1] == "lt" and (df.named_fields(l[2]) or ())[-1:] == ("age",) and
                       "cutoff" in df.tree_str(l[3]) for l in tl)
            if keep:
                rep.ok("FM-3", pm.key, "retain keeps age < cutoff", where=pm.loc())
            else:
                rep.violation("FM-3", pm.key, "retain keeps age < cutoff",
                              "the retain predicate does not keep exactly the messages younger than the cutoff: %s" %
                              sorted(cnd.lit_str(l) for l in tl), where=pm.loc())
        # interval wiring: Port::new -> Bmca::new(.., announce_interval, ..)
        pn = prog.one(name="new", self_name="Port", crate="statime-lib")
        pvn = df.Prov(pn)
        okw = False
        for bi, t, cal in mir.iter_calls(pn, name="new"):
            if cal["key"].endswith("<Bmca>::new") and len(t["args"]) >= 2:
                s = df.canon(pvn.op_tree(t["args"][1]), pn)
                if "config.announce_interval" in s:
                    okw = True
        if okw:
            rep.ok("FM-3", pn.key, "window uses the port's announce interval", where=pn.loc())
        else:
            rep.violation("FM-3", pn.key, "window uses the port's announce interval",
                          "Bmca::new is not given the port's configured announce interval", where=pn.loc())
    except AnchorMissing as e:
        rep.anchor_missing("FM-3", str(e))

    # ---------------- FM-4
    chain = [("bmca", "PtpInstanceState", "step_announce_age"), ("step_announce_age", "Port", "step_age"),
             ("step_age", "Bmca", "step_age"), ("step_age", "ForeignMasterList", "step_age"),
             ("step_age", "ForeignMaster", "purge_old_messages")]
    for (fn, sn, callee) in chain:
        try:
            b = one(prog, fn, sn)
        except AnchorMissing as e:
            rep.anchor_missing("FM-4", str(e))
            continue
        ok, detail = always_called(prog, b, callee)
        if ok:
            rep.ok("FM-4", b.key, "always calls %s" % callee, detail=detail, where=b.loc())
        else:
            rep.violation("FM-4", b.key, "always calls %s" % callee,
                          "%s::%s does not call %s on every run (%s): records stop ageing and a silent master is never "
                          "dropped" % (sn, fn, callee, detail), where=b.loc())
    try:
        fs = one(prog, "step_age", "ForeignMaster")
        pv = df.Prov(fs)
        okage = False
        for bi, t, cal in mir.iter_calls(fs, name="add_assign"):
            a0 = df.canon(pv.op_tree(t["args"][0]), fs)
            a1 = df.canon(pv.op_tree(t["args"][1]), fs)
            if a0.endswith("age") and a1 == "step":
                okage = True
        if okage:
            rep.ok("FM-4", fs.key, "age += step", where=fs.loc())
        else:
            rep.violation("FM-4", fs.key, "age += step", "message ages are not advanced by the BMCA step", where=fs.loc())
    except AnchorMissing as e:
        rep.anchor_missing("FM-4", str(e))

    # ---------------- FM-6
    try:
        tb = one(prog, "take_best_port_announce_message", "Bmca")
        c = cnd.conds(prog, tb)
        pv = c.prov
        found = False
        for bi, t, cal in mir.iter_calls(tb):
            if cal["key"].find("<Bmca>::") < 0 or len(t["args"]) < 3:
                continue
            lits = c.must_literals(bi)
            some = any(l[0] == "variant" and l[2] in (frozenset(["Some"]), frozenset(["Continue"])) and
                       "find_best_announce_message" in df.tree_str(l[1]) for l in lits)
            if not some:
                continue
            found = True
            args = [df.canon(pv.op_tree(a), tb) for a in t["args"]]
            age_idx = [i for i, f in enumerate(args) if f.endswith(".age") and "find_best_announce_message" in f]
            hdr = any(f.endswith(".header") and "find_best_announce_message" in f for f in args)
            msg = any(f.endswith(".message") and "find_best_announce_message" in f for f in args)
            construct = "re-register Erbest via %s" % cal["name"]
            if not (age_idx and hdr and msg):
                rep.violation("FM-6", tb.key, construct,
                              "the selected Erbest is put back without its own header/message/age (arguments: %s): each BMCA "
                              "run would rejuvenate or lose the parent's record" % [df.canon(pv.op_tree(a), tb) for a in t["args"]],
                              where=fc.where(tb, t["sp"][1]))
                continue
            rep.ok("FM-6", tb.key, construct, where=fc.where(tb, t["sp"][1]))
            # follow the age parameter down to the stored record
            callee = cg.lookup(tb.unit, cal.get("resolved") or cal["key"])
            param = age_idx[0] + 1
            hops = 0
            cur = callee
            ok = cur is not None
            while ok and hops < 4:
                hops += 1
                pvc = df.Prov(cur)
                nxt = None
                stored = False
                for bi2, si2, s2 in mir.iter_stmts(cur):
                    if s2["k"] == "assign" and s2["r"]["k"] == "agg" and s2["r"].get("name") == "ForeignAnnounceMessage":
                        tr = pvc.rvalue_tree(s2["r"])
                        for f, sub in tr[3]:
                            if f == "age" and df.strip(sub) == ("path", ("arg", param), ()):
                                stored = True
                if stored:
                    rep.ok("FM-6", cur.key, "age parameter stored in the record", where=cur.loc())
                    break
                for bi2, t2, cal2 in mir.iter_calls(cur, name="register_announce_message"):
                    for i, a in enumerate(t2["args"]):
                        if df.strip(pvc.op_tree(a)) == ("path", ("arg", param), ()):
                            nb = cg.lookup(cur.unit, cal2.get("resolved") or cal2["key"])
                            if nb is not None:
                                nxt = (nb, i + 1)
                if nxt is None:
                    rep.violation("FM-6", cur.key, "age parameter forwarded",
                                  "the age of the re-registered Erbest is dropped in %s (parameter %d is not passed on / "
                                  "stored): the record would be stored with another age" % (cur.key.split("::")[-1], param),
                                  where=cur.loc())
                    ok = False
                    break
                rep.ok("FM-6", cur.key, "age parameter forwarded", where=cur.loc())
                cur, param = nxt
        if not found:
            rep.violation("FM-6", tb.key, "re-register Erbest",
                          "take_best_port_announce_message does not put the selected Erbest back into the foreign master list",
                          where=tb.loc())
    except AnchorMissing as e:
        rep.anchor_missing("FM-6", str(e))

    check_eviction(rep, prog)
    from rules import flow_common
    rep.rule("FM-9", "a slave port whose BMCA recommendation names ANOTHER master re-initialises its slave state for that "
                     "master (a silent parent is replaced, not kept as measurement source) - shared with C07 NI-6", floor=1)
    from rules import share as _share
    _share.share(ctx, rep, "c07", "NI-6", "FM-9")
    flow_common.check_ageing_step(rep, prog, "FM-8")
    flow_common.check_bmca_step_source(rep, prog, "FM-8")
    rep.rule("FM-10", "a foreign master record whose last Announce aged out is removed from the list", floor=1)
    flow_common.check_record_removal(rep, prog, "FM-10")
    flow_common.check_window_interval(rep, prog, "FM-8")
