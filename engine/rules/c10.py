"""C10 — master-side messages carry exact timestamps and consistent identifiers (TX-1..7)."""
import json, os, re
from sa import mir, dataflow as df, conds as cnd
from sa.callgraph import callgraph
from sa.facts import AnchorMissing
from rules import fsm_common as fc

LEVEL = "other"
ANCHOR_RULE = "TX-2"
EXPLANATION = (
    "TX-1: no path of any library function constructs two PortAction::SendEvent (at most one event send per action "
    "list; MAX_ACTIONS <= 2), and PortActionIterator::next itself only ever constructs ForwardTLV. TX-2 (echo "
    "wiring, engine/spec/tx_wiring.json): every field of the messages built by Message::{sync, follow_up, "
    "delay_req, delay_resp, pdelay_req, pdelay_resp, pdelay_resp_follow_up} that echoes an identifier or carries a "
    "timestamp comes from the prescribed constructor parameter (sequence number, requester identity, origin/"
    "receive timestamp = into(timestamp), correction = sub-nanosecond part (+ the request's correction)); every "
    "call site passes the prescribed values (own port identity, defaultDS of the locked state, the id/timestamp "
    "of the triggering context, a fresh number of the right generator), with closure captures resolved; the "
    "TimestampContext stored with each event send carries the same id that was put into the message, and "
    "handle_send_timestamp dispatches each context variant to its handler with those very fields. TX-3: each of the "
    "four sequence generators feeds exactly one message type and generate() returns the current value and "
    "advances by wrapping_add(1) with no overflow check in the way. TX-4: the data of every SendEvent/SendGeneral "
    "is packet_buffer[..n] with n the length Message::serialize returned for that buffer, so no frame exceeds "
    "MAX_DATA_LEN. TX-6: the timestamp split secs = inner / 10^9 (truncating to_num), subsec_nanos = inner % 10^9 "
    "(truncating), subnano = frac(inner), and WireTimestamp::from(Time) uses exactly these. W-CTX/W-ACTIONS "
    "compile-fail witnesses run in the thorough tier."
    " TX-9: no assignment to a *_seq_ids field outside construction (a generator is only advanced by generate()). TX-10 (shared with C07 NI-1): requests reach a handler only after the sdoId AND domain filter, which is what makes the `..request_header` copy in responses carry the instance's sdoId/domain."
    " TX-11: base_header takes sdoId/domainNumber from defaultDS and port identity / sequence id from its arguments. TX-12: ForwardedTLV::size() is the TLV's wire size."
)
NOT_DECIDED = "numeric exactness of the fixed-point operations (C16); that emitted frames decode (C04/C15)"


def load_spec(ctx):
    with open(os.path.join(ctx.verif, "engine", "spec", "tx_wiring.json")) as f:
        return json.load(f)


def flat(prefix, t, out):
    t = df.strip(t)
    if t[0] == "agg" and t[1] not in ("Option", "Result", "array", "tuple") and t[3] and not t[1].startswith("closure"):
        for f, s in t[3]:
            flat((prefix + "." + f) if prefix else f, s, out)
    else:
        out[prefix] = t


def captures_of(prog, clos):
    par, pbb = fc.closure_site(prog, clos)
    if par is None:
        return None, None
    ppv = df.Prov(par, captures=captures_of(prog, par)[0] if par.is_closure else None)
    for bi, si, s in mir.iter_stmts(par):
        if s["k"] == "assign" and s["r"]["k"] == "agg" and s["r"].get("ak") == "closure" and s["r"]["key"] == clos.j["key"]:
            tr = ppv.rvalue_tree(s["r"])
            return {f: df.reroot_outer(x, par) for f, x in tr[3]}, par
    return None, par


def check_msg_wiring(rep, prog, spec, rid, names=None):
    """constructor field wiring + call-site argument wiring of Message::<name>; returns {generator field: users}"""
    # ---------------- TX-2 constructors
    for name, table in spec["constructors"].items():
        if names is not None and name not in names:
            continue
        try:
            b = prog.one(name=name, self_name="Message", crate="statime-lib")
        except AnchorMissing as e:
            rep.anchor_missing(rid, str(e))
            continue
        pv = df.Prov(b)
        out = {}
        flat("", pv.local_tree(0), out)
        for f, want in table.items():
            t = out.get(f)
            if t is None and f + ".0" in out:
                t = out[f + ".0"]
            construct = "Message::%s.%s" % (name, f)
            if t is None:
                rep.violation(rid, b.key, construct, "field %s not found in the constructed message" % f, where=b.loc())
                continue
            if want.startswith("lin:"):
                got = {df.canon_pos(("path",) + (), b) if False else k: v for k, v in df.lin(t, df._Positional(b)).items()}
                ok = got == df.parse_lin(want[4:])
                gs = df.lin_str(got)
            else:
                gs = df.canon_pos(t, b)
                ok = gs == want
            if ok:
                rep.ok(rid, b.key, construct, detail=gs, where=b.loc())
            else:
                rep.violation(rid, b.key, construct, "%s is built from `%s`, prescribed: `%s`" % (construct, gs, want), where=b.loc())

    # ---------------- TX-2 call sites, contexts; TX-3 generators; TX-4 frames
    gen_users = {}
    for name, ent in spec["call_sites"].items():
        if names is not None and name not in names:
            continue
        try:
            caller = prog.one(name=ent["caller"], self_name="Port", crate="statime-lib")
        except AnchorMissing as e:
            rep.anchor_missing(rid, str(e))
            continue
        found = False
        for b in [caller] + prog.closures_of(caller):
            caps = captures_of(prog, b)[0] if b.is_closure else None
            pv = df.Prov(b, captures=caps)
            for bi, t, cal in mir.iter_calls(b, name=name):
                if "messages::<Message>::" not in cal["key"]:
                    continue
                found = True
                for idx, want in ent["args"].items():
                    a = t["args"][int(idx)]
                    tr = pv.op_tree(a)
                    gs = df.canon(tr, b)
                    construct = "%s(arg %s)" % (name, idx)
                    if gs == want:
                        rep.ok(rid, caller.key, construct, detail=gs, where=fc.where(b, t["sp"][1]))
                    else:
                        rep.violation(rid, caller.key, construct,
                                      "Message::%s is given `%s` as argument %s, prescribed: `%s`" % (name, gs, idx, want),
                                      where=fc.where(b, t["sp"][1]))
                    m = re.fullmatch(r"generate\(self\.(\w+)\)", gs)
                    if m:
                        gen_users.setdefault(m.group(1), set()).add(name)
        if not found:
            rep.violation(rid, caller.key, "call Message::%s" % name, "%s no longer builds its message with Message::%s" % (ent["caller"], name),
                          where=caller.loc())
    return gen_users


def run(ctx):
    _run(ctx)
    import witness
    witness.report(ctx, "C10")


def _run(ctx):
    rep = ctx.report
    prog = ctx.prog("default")
    spec = load_spec(ctx)
    cg = callgraph(prog)
    rep.rule("TX-1", "at most one event send per action list", floor=4)
    rep.rule("TX-2", "echoed identifiers and timestamps come from the triggering request/context", floor=60)
    rep.rule("TX-3", "one wrapping sequence generator per message type", floor=5)
    rep.rule("TX-4", "every frame is packet_buffer[..serialize(..)]", floor=8)
    rep.rule("TX-6", "timestamp split into seconds / nanoseconds / sub-ns correction", floor=4)
    rep.rule("TX-8", "a sequence number is drawn only where the message it numbers is emitted (Sync/Announce generators "
                     "only in state Master, Delay_Req only in Slave): ids of emitted messages stay consecutive", floor=3)
    GEN_STATE = {"sync_seq_ids": {"Master"}, "announce_seq_ids": {"Master"}, "delay_seq_ids": {"Slave"}}
    for b_ in sorted(prog.bodies.values(), key=lambda x: x.key):
        if b_.unit.name != "statime-lib" or b_.is_test():
            continue
        pv_ = None
        for bi, t, cal in mir.iter_calls(b_, name="generate"):
            pv_ = pv_ or df.Prov(b_)
            f_ = df.named_fields(pv_.op_tree(t["args"][0])) or ()
            gen = next((g_ for g_ in GEN_STATE if f_ and (f_[-1] == g_ or f_[-1].endswith("__" + g_))), None)   # also `_ref__self__<field>` captures
            if gen is None:
                continue
            states, kills, (ob, obb) = fc.state_at_site(prog, b_, bi)
            construct = "generate(%s)" % gen
            if states <= GEN_STATE[gen] and not kills:
                rep.ok("TX-8", ob.key, construct, detail=sorted(states), where=fc.where(b_, t["sp"][1]))
            else:
                rep.violation("TX-8", ob.key, construct,
                              "%s is advanced where the port state may be %s (the message is only emitted in %s): an id is "
                              "consumed without a message, so emitted ids are no longer consecutive" % (
                                  gen, sorted(states), sorted(GEN_STATE[gen])), where=fc.where(b_, t["sp"][1]))
    rep.rule("TX-7", "start_bmca/end_bmca carry every sequence generator, the port identity, config and state over "
                     "to the same-named field", floor=2)
    from rules import fsm_common as _fc
    _fc.check_lifecycle_transfer(rep, prog, "TX-7", fields={"announce_seq_ids", "sync_seq_ids", "delay_seq_ids",
                                                            "pdelay_seq_ids", "port_identity", "config",
                                                            "instance_state", "port_state"}, check_pending=False)

    # ---------------- TX-1
    for b in prog.bodies.values():
        if b.unit.name != "statime-lib" or b.is_test():
            continue
        se = [bi for bi, si, s in mir.iter_stmts(b) if s["k"] == "assign" and s["r"]["k"] == "agg" and
              s["r"].get("name") == "PortAction" and s["r"]["variant"] == "SendEvent"]
        if not se:
            continue
        g = mir.cfg(b)
        bad = None
        for x in se:
            after = g.reachable_from(g.succ[x][0]) if g.succ[x] else set()
            for y in se:
                if y in after and (y != x or x in after):
                    bad = (x, y)
        if bad or len(se) != len(set(se)):
            rep.violation("TX-1", b.key, "SendEvent x2", "two event-message sends can end up in one set of actions", where=b.loc())
        else:
            rep.ok("TX-1", b.key, "single SendEvent", where=b.loc())
    try:
        mx = prog.const_value("port::actions::MAX_ACTIONS")
        if mx <= 2:
            rep.ok("TX-1", "statime::port::actions", "MAX_ACTIONS=%d" % mx)
        else:
            rep.violation("TX-1", "statime::port::actions", "MAX_ACTIONS", "MAX_ACTIONS is %d (> 2)" % mx)
    except AnchorMissing as e:
        rep.anchor_missing("TX-1", str(e))

    gen_users = check_msg_wiring(rep, prog, spec, "TX-2")
    for fn, ent in spec["contexts"].items():
        try:
            b = prog.one(name=fn, self_name="Port", crate="statime-lib")
        except AnchorMissing as e:
            rep.anchor_missing("TX-2", str(e))
            continue
        pv = df.Prov(b)
        ok_any = False
        for bi, si, s in mir.iter_stmts(b):
            if s["k"] == "assign" and s["r"]["k"] == "agg" and s["r"].get("name") == "TimestampContextInner":
                tr = pv.rvalue_tree(s["r"])
                fields = {f: df.canon(x, b) for f, x in tr[3]}
                construct = "context %s" % ent["variant"]
                if tr[2] == ent["variant"] and fields == ent["fields"]:
                    rep.ok("TX-2", b.key, construct, detail=fields, where=fc.where(b, s["sp"][1]))
                else:
                    rep.violation("TX-2", b.key, construct,
                                  "the timestamp context stored with the event send is %s%s, prescribed %s%s: the follow-up would "
                                  "carry another identifier than the message it belongs to" % (tr[2], fields, ent["variant"], ent["fields"]),
                                  where=fc.where(b, s["sp"][1]))
                ok_any = True
        if not ok_any:
            rep.violation("TX-2", b.key, "context %s" % ent["variant"], "no TimestampContext constructed", where=b.loc())
    try:
        hs = prog.one(name="handle_send_timestamp", self_name="Port", crate="statime-lib")
        c = cnd.conds(prog, hs)
        for var, (handler, args) in spec["dispatch"].items():
            hit = False
            for bi, t, cal in mir.iter_calls(hs, name=handler):
                hit = True
                lits = c.must_literals(bi)
                vs = None
                for l in lits:
                    if l[0] == "variant" and l[3] == "TimestampContextInner":
                        vs = set(l[2]) if vs is None else vs & set(l[2])
                got = [df.canon(c.prov.op_tree(a), hs) for a in t["args"][1:]]
                if vs == {var} and got == args:
                    rep.ok("TX-2", hs.key, "dispatch %s" % var, detail=got, where=fc.where(hs, t["sp"][1]))
                else:
                    rep.violation("TX-2", hs.key, "dispatch %s" % var,
                                  "%s is called for context %s with %s (prescribed: context %s, %s)" % (handler, vs, got, var, args),
                                  where=fc.where(hs, t["sp"][1]))
            if not hit:
                rep.violation("TX-2", hs.key, "dispatch %s" % var, "no call of %s" % handler, where=hs.loc())
    except AnchorMissing as e:
        rep.anchor_missing("TX-2", str(e))

    # ---------------- TX-3
    want_gen = {"sync_seq_ids": {"sync"}, "announce_seq_ids": {"announce"}, "delay_seq_ids": {"delay_req"}, "pdelay_seq_ids": {"pdelay_req"}}
    for g_, users in want_gen.items():
        if gen_users.get(g_) == users:
            rep.ok("TX-3", "statime::port::<Port>", "%s -> %s" % (g_, sorted(users)))
        else:
            rep.violation("TX-3", "statime::port::<Port>", "%s -> %s" % (g_, sorted(users)),
                          "sequence generator %s feeds %s (prescribed: exactly %s): sequence numbers of one message type would "
                          "skip or repeat" % (g_, sorted(gen_users.get(g_, [])), sorted(users)))
    check_generator(rep, prog, "TX-3")

    # ---------------- TX-11 / TX-12
    rep.rule("TX-11", "the header every self-originated message starts from takes sdoId and domainNumber from defaultDS, the "
                      "port identity and the sequence number from its arguments", floor=4)
    check_base_header(rep, prog, "TX-11")
    rep.rule("TX-12", "the size a forwarded TLV is accounted with is its WIRE size (header + value): it is the one number the "
                      "provider's fit test, the room accounting and the assertion all use - shared with C15 TLV-12", floor=1)
    check_forwarded_size(rep, prog, "TX-12")

    # ---------------- TX-9 / TX-10
    rep.rule("TX-9", "a sequence generator is only ever advanced by generate(): no other assignment to a *_seq_ids field "
                     "(a generator that is reset when the port re-enters a state repeats sequence numbers)", floor=1)
    from sa.stores import stores as _stores
    n9 = 0
    for b in prog.bodies.values():
        if b.unit.name != "statime-lib" or b.is_test() or b.self_name == "SequenceIdGenerator":
            continue
        try:
            sts, _pv = _stores(b, include_locals=False)
        except Exception:
            continue
        for s_ in sts:
            f_ = s_["lhs"].split(".")
            hit = [x for x in f_ if x.endswith("_seq_ids")]
            if hit:
                n9 += 1
                rep.violation("TX-9", b.key, "store to %s" % hit[0],
                              "%s is overwritten with `%s` outside the generator: the next message of that type repeats or "
                              "skips sequence numbers" % (s_["lhs"], df.canon(s_["tree"], b)[:120]), where=fc.where(b, s_["line"]))
    if n9 == 0:
        rep.ok("TX-9", "statime::port::<Port>", "no store to a *_seq_ids field outside construction")
    rep.rule("TX-10", "responses copy sdoId and domainNumber from the request header, so every request that reaches a handler "
                      "has passed the sdoId AND domain filter - shared with C07 NI-1", floor=2)
    from rules import c07 as _c07
    _c07.check_domain_gate(rep, prog, "TX-10")
    # ---------------- TX-4
    for b in prog.bodies.values():
        if b.unit.name != "statime-lib" or b.is_test():
            continue
        pv = None
        for bi, si, s in mir.iter_stmts(b):
            if s["k"] == "assign" and s["r"]["k"] == "agg" and s["r"].get("name") == "PortAction" and \
                    s["r"]["variant"] in ("SendEvent", "SendGeneral"):
                pv = pv or df.Prov(b)
                tr = pv.rvalue_tree(s["r"])
                data = dict(tr[3]).get("data")
                ds = df.canon(data, b)
                ok = bool(re.fullmatch(r"index\(self\.packet_buffer, RangeTo\{end: serialize\(.*(self\.packet_buffer)\)\)?\}\)", ds.replace("cast<&mut [u8]>(", "(")))
                construct = "%s.data" % s["r"]["variant"]
                if ok:
                    rep.ok("TX-4", b.key, construct, where=fc.where(b, s["sp"][1]))
                else:
                    rep.violation("TX-4", b.key, construct,
                                  "frame data is `%s`, not packet_buffer[..length returned by serialize into packet_buffer]" % ds[:200],
                                  where=fc.where(b, s["sp"][1]))

    # ---------------- TX-6
    for nm, want in spec["time_split"].items():
        sn, fn = nm.split("::")
        try:
            cands = [b for b in prog.find(name=fn, self_name=sn, crate="statime-lib")
                     if fn != "from" or "From<Time>" in (b.trait_ref or "")]
            if len(cands) != 1:
                raise AnchorMissing("%s (%d candidates)" % (nm, len(cands)))
            b = cands[0]
            got = df.canon_pos(df.Prov(b).local_tree(0), b)
            if got == want:
                rep.ok("TX-6", b.key, nm, detail=got, where=b.loc())
            else:
                rep.violation("TX-6", b.key, nm, "%s computes `%s`, the exact decomposition is `%s`" % (nm, got, want), where=b.loc())
        except AnchorMissing as e:
            rep.anchor_missing("TX-6", str(e))


def check_generator(rep, prog, rid):
    """SequenceIdGenerator::generate returns the current value and advances by wrapping_add(1)"""
    from sa.stores import stores
    try:
        gen = prog.one(name="generate", self_name="SequenceIdGenerator", crate="statime-lib")
        pv = df.Prov(gen)
        from sa.stores import stores
        sts, _ = stores(gen, include_locals=False)
        ret = df.canon(pv.local_tree(0), gen)
        upd = [df.canon(s["tree"], gen) for s in sts if s["lhs"] == "self.current"]
        ovf = [t["sp"][1] for bi, t in mir.iter_terms(gen, "assert")]
        if ret == "self.current" and upd == ["wrapping_add(self.current, 1)"] and not ovf:
            rep.ok(rid, gen.key, "returns current, advances by wrapping_add(1)", where=gen.loc())
        else:
            rep.violation(rid, gen.key, "returns current, advances by wrapping_add(1)",
                          "generate() returns `%s`, updates current with %s, overflow-checked arithmetic at lines %s: sequence numbers "
                          "do not increase by one modulo 2^16" % (ret, upd, ovf), where=gen.loc())
    except AnchorMissing as e:
        rep.anchor_missing(rid, str(e))


def check_base_header(rep, prog, rid):
    want = {"sdo_id": "arg1.sdo_id", "domain_number": "arg1.domain_number", "source_port_identity": "arg2",
            "sequence_id": "arg3"}
    try:
        b = prog.one(name="base_header", crate="statime-lib")
    except AnchorMissing as e:
        rep.anchor_missing(rid, str(e))
        return
    out = {}
    flat("", df.Prov(b).local_tree(0), out)
    for f, w in want.items():
        t = out.get(f)
        if t is None and f + ".0" in out:
            t = out[f + ".0"]
        got = df.canon_pos(t, b) if t is not None else None
        if got == w:
            rep.ok(rid, b.key, "base_header.%s" % f, detail=got, where=b.loc())
        else:
            rep.violation(rid, b.key, "base_header.%s" % f,
                          "the %s of every self-originated message is `%s`, prescribed `%s` (defaultDS / the caller's "
                          "argument): emitted frames would not bear the instance's own %s" % (f, got, w, f), where=b.loc())


def check_forwarded_size(rep, prog, rid):
    try:
        b = prog.one(name="size", self_name="ForwardedTLV", crate="statime-lib")
    except AnchorMissing as e:
        rep.anchor_missing(rid, str(e))
        return
    got = df.canon(df.Prov(b).local_tree(0), b)
    if got == "wire_size(self.tlv)":
        rep.ok(rid, b.key, "size() = wire size", detail=got, where=b.loc())
    else:
        rep.violation(rid, b.key, "size() = wire size",
                      "ForwardedTLV::size() returns `%s`, not the TLV's wire size: every forwarded TLV is accounted %s, so a "
                      "suffix that 'fits' can exceed the frame" % (got, "short by its 4-octet header" if "value" in got else "wrongly"),
                      where=b.loc())
