"""C20 — the metrics exporter cannot be wedged by its clients (SRV-1..5), decided on the typed HIR."""
from sa import hir

LEVEL = "other"
ANCHOR_RULE = "SRV-1"
EXPLANATION = (
    "Typed-HIR rules (the async daemon code is analysed as HIR because coroutine MIR no longer has source loops; "
    ".await and ? desugarings are folded back first). For every function with an accept loop (a loop awaiting "
    "`accept()` on a tokio listener): SRV-1 no `?`, `return`, unwrap/expect inside that loop is applied to a value "
    "derived from the accepted connection (receiver or argument, through let/match bindings), so no per-connection "
    "I/O error can end the server function; SRV-2 every loop that awaits AsyncReadExt::read binds the count and "
    "has a branch on `== 0` that leaves that loop (EOF cannot spin); SRV-3 that EOF test precedes every back edge "
    "(`continue`) of the read loop, so each iteration consumes input or leaves; SRV-4 wherever a Result decides "
    "what is written to the connection, every arm (in particular Err) writes a response; SRV-5 in a read loop that "
    "accumulates into a buffer, the request-complete test scans the whole received prefix (start 0, or the "
    "pre-increment count minus >= 3), so a header terminator split over two reads is still found."
    ' SRV-7: no loop/while awaits connect() (bounded connection attempts per request).'
    ' SRV-8: a response buffer that outlives a connection is cleared unconditionally before each request is handled. SRV-9: the request buffer holds at least 2048 bytes.'
)
NOT_DECIDED = "timing (answer within a deadline), tokio runtime behaviour, errors of the listener socket itself"
ASSUMPTIONS = ["a read of 0 bytes from tokio AsyncReadExt::read means EOF (or a full destination buffer)",
               "errors of listener.accept() itself are outside the rule (not per-connection)"]

STREAM_TY = ("net::tcp::stream::TcpStream", "net::unix::stream::UnixStream")
WRITE_NAMES = ("write_all", "write", "write_all_buf", "write_buf")
READ_NAMES = ("read", "read_buf")


def conn_locals(body):
    out = {}
    for x in hir.walk(body):
        if x.get("k") == "path":
            r = x.get("res", {})
            ty = x.get("ty", "")
            if "local" in r and any(s in ty for s in STREAM_TY) and "Listener" not in ty:
                out[r["id"]] = r["local"]
    return out


def is_accept_await(n):
    if n.get("k") != "await":
        return False
    e = hir.strip_wrappers(n["e"])
    return e.get("k") in ("mcall", "call") and hir.callee_name(e).endswith("::accept")


def is_read_await(n):
    if n.get("k") != "await":
        return False
    e = hir.strip_wrappers(n["e"])
    if e.get("k") != "mcall" or e.get("name") not in READ_NAMES:
        return False
    c = e.get("callee", "")
    return "AsyncReadExt" in c or "AsyncRead" in c or "tokio" in c


def direct_nodes(loop):
    """Nodes inside the loop body, not entering nested loops or closures; yields (node, parents list)."""
    out = []

    def rec(n, parents):
        for c in hir.children(n):
            if not isinstance(c, dict):
                continue
            out.append((c, parents))
            if c.get("k") in ("loop", "closure"):
                continue
            rec(c, parents + [c])
    rec(loop["body"], [loop])
    return out


def all_nodes_no_closure(root):
    out = []

    def rec(n, parents):
        for c in hir.children(n):
            if not isinstance(c, dict):
                continue
            out.append((c, parents))
            if c.get("k") == "closure":
                continue
            rec(c, parents + [c])
    rec(root, [root])
    return out


def taint_fixpoint(loop, seed):
    T = set(seed)
    for _ in range(4):
        before = len(T)
        for (n, parents) in all_nodes_no_closure(loop):
            k = n.get("k")
            if k == "let" and n.get("init") is not None:
                if hir.locals_used(n["init"], False) & T:
                    T.update(i for _, i in hir.pat_bindings(n["pat"]))
            elif k == "letexpr":
                if hir.locals_used(n["init"], False) & T:
                    T.update(i for _, i in hir.pat_bindings(n["pat"]))
            elif k == "match":
                if hir.locals_used(n["scrut"], False) & T:
                    for a in n["arms"]:
                        T.update(i for _, i in hir.pat_bindings(a["pat"]))
        if len(T) == before:
            break
    return T


def leaves_loop(n, loop_id, inner_ids):
    """Does executing node n (a block/expr) definitely leave loop `loop_id`? Conservative syntactic test: the
    block's statements/tail contain, outside nested loops/closures, a break of this loop (or an outer one), a
    return, or a continue of an outer loop, and no path... (the last statement form is what the repo uses)."""
    for (x, parents) in [(n, [])] + all_nodes_no_closure(n):
        k = x.get("k")
        if k == "ret":
            return True
        if k == "break" and x.get("target") not in inner_ids:
            return True
        if k == "continue" and x.get("target") != loop_id and x.get("target") not in inner_ids:
            return True
        if k == "call" and hir.callee_name(x).endswith("process::exit"):
            return True
    return False


def run(ctx):
    rep = ctx.report
    prog = ctx.prog("default")
    rep.rule("SRV-1", "inside an accept loop no ?/return/unwrap is applied to a value derived from the accepted "
                      "connection", floor=2)
    rep.rule("SRV-2", "every loop awaiting AsyncReadExt::read binds the count and leaves the loop on == 0", floor=1)
    rep.rule("SRV-3", "the EOF test precedes every `continue` of the read loop (each iteration makes progress or "
                      "leaves)", floor=1)
    rep.rule("SRV-4", "where a Result decides what is written to the connection every arm writes a response",
             floor=1)
    rep.rule("SRV-5", "in a read loop that accumulates into a buffer (`read(&mut buf[acc..])`) every test that ends "
                      "the loop by inspecting the buffer inspects the whole received prefix (range start 0, or the "
                      "pre-increment accumulator minus >= 3), so a terminator split over two reads is found", floor=1)
    rep.rule("SRV-6", "the read counter of a connection is declared or reset inside the accept loop (no state leaks from "
                      "one connection into the next)", floor=1)
    rep.rule("SRV-7", "serving a request makes a bounded number of connection attempts: no `loop`/`while` awaits a "
                      "connect() (a retry loop on the observation socket wedges the single-connection exporter for as "
                      "long as the daemon refuses connections)", floor=1)
    n_connect = 0
    for key, (u, h) in sorted(prog.hir.items()):
        if u.crate not in ("statime_linux", "statime_metrics_exporter") and u.name != "statime-bin":
            continue
        if "::tests::" in key or "metrics" not in key:
            continue
        body7 = hir.simplify(hir.fn_body(h))

        def is_connect(n):
            if n.get("k") != "await":
                return False
            e = hir.strip_wrappers(n["e"])
            return e.get("k") in ("mcall", "call") and hir.callee_name(e).endswith("::connect")
        in_loop = set()
        for L in hir.walk(body7, enter_closures=True):
            if L.get("k") == "loop" and "ForLoop" not in (L.get("src") or ""):
                for x in hir.walk(L, True):
                    if is_connect(x):
                        in_loop.add(id(x))
                        rep.violation("SRV-7", key, "connect inside a loop",
                                      "connect() is awaited inside a `%s`: while the peer refuses connections the request "
                                      "never completes, and the exporter serves one connection at a time" % (L.get("src") or "loop"),
                                      where=hir.where(x))
        for x in hir.walk(body7, enter_closures=True):
            if is_connect(x):
                n_connect += 1
                if id(x) not in in_loop:
                    rep.ok("SRV-7", key, "single connection attempt", where=hir.where(x))
    rep.rule("SRV-8", "a response buffer that outlives one connection is cleared unconditionally before each request is "
                      "handled (what one client left behind - e.g. a response that could not be written - is never served "
                      "to the next)", floor=1)
    rep.rule("SRV-9", "the request buffer of the accumulating read loop holds at least 2048 bytes (a well-formed request head "
                      "below the documented limit is not dropped as too long)", floor=1)
    n_fns = 0
    accept_loops = 0
    for key, (u, h) in sorted(prog.hir.items()):
        if u.crate not in ("statime_linux", "statime_metrics_exporter") and u.name != "statime-bin":
            continue
        if "::tests::" in key:
            continue
        n_fns += 1
        body = hir.simplify(hir.fn_body(h))
        conns = conn_locals(body)
        loops = [x for x in hir.walk(body, enter_closures=True) if x.get("k") == "loop"]
        # ---------------- SRV-1
        for L in loops:
            dn = all_nodes_no_closure(L)
            acc = [n for (n, _) in dn if is_accept_await(n)]
            if not acc:
                continue
            # the accept must belong to this loop directly (not to a nested loop)
            direct = [n for (n, _) in direct_nodes(L) if is_accept_await(n)]
            if not direct:
                continue
            accept_loops += 1
            seeds = set()
            for (n, _) in dn:
                if n.get("k") == "let" and n.get("init") is not None and any(
                        is_accept_await(x) for x in hir.walk(n["init"], False)):
                    seeds.update(i for _, i in hir.pat_bindings(n["pat"]))
            seeds.update(i for i in conns if i in hir.locals_used(L, False))
            T = taint_fixpoint(L, seeds)
            found = 0
            for (n, parents) in dn:
                k = n.get("k")
                bad = None
                if k == "try":
                    if is_accept_await(hir.strip_wrappers(n["e"])):
                        continue
                    if hir.locals_used(n["e"], False) & T:
                        bad = "`?` on a per-connection result ends the server function"
                elif k == "ret":
                    used = hir.locals_used(n.get("e", {}), False) if n.get("e") else set()
                    in_err_arm = False
                    for p in parents:
                        if p.get("k") == "match" and hir.locals_used(p["scrut"], False) & T:
                            in_err_arm = True
                    if used & T or in_err_arm:
                        bad = "`return` on a per-connection result ends the server function"
                elif k == "mcall" and n.get("name") in ("unwrap", "expect") and "Result" in n.get("recv_ty", ""):
                    if hir.locals_used(n["recv"], False) & T:
                        bad = "unwrap/expect on a per-connection result panics the server task"
                if bad:
                    found += 1
                    txt = describe(n)
                    rep.violation("SRV-1", key, txt, "%s: %s" % (bad, txt), where=hir.where(n))
            if not found:
                rep.ok("SRV-1", key, "accept-loop@%s" % ",".join(sorted(conns.values())),
                       detail={"connection_values": sorted(set(conns.values())), "tainted_locals": len(T)},
                       where=hir.where(L))
        # ---------------- SRV-2 / SRV-3
        for L in loops:
            reads = [(n, parents) for (n, parents) in direct_nodes(L) if is_read_await(n)]
            if not reads:
                continue
            inner_ids = {x.get("id") for x in hir.walk(L["body"]) if x.get("k") == "loop"}
            for (R, parents) in reads:
                check_read_loop(rep, key, L, R, parents, inner_ids)
                check_prefix_scan(rep, key, L, R)
                check_acc_reset(rep, key, body, loops, L, R)
                check_request_buffer(rep, key, R, prog, h)
        # ---------------- SRV-8
        check_response_buffer(rep, key, body, loops)
        # ---------------- SRV-4
        if conns:
            check_srv4(rep, key, body, conns)
    rep.extra["functions_scanned"] = n_fns
    rep.extra["accept_loops"] = accept_loops
    if accept_loops < 2:
        rep.anchor_missing("SRV-1", "expected accept loops in exporter::main and observer::observer, found %d" % accept_loops)


def check_srv4(rep, key, body, conns):
    """For every match on a Result that is not itself derived from the connection (the data-producing call) in a
    function that writes to the connection: every arm either writes to the connection, or falls through to a
    connection write that follows the match in the same block; no arm may skip the write."""
    cset = set(conns)
    for (blk, parents) in [(body, [])] + all_nodes_no_closure(body):
        if blk.get("k") != "block":
            continue
        items = list(blk.get("stmts", []))
        if blk.get("expr"):
            items.append(blk["expr"])
        for idx, st in enumerate(items):
            m = None
            for x in hir.walk(st, enter_closures=False):
                if x.get("k") == "block" and x is not st:
                    continue
                if x.get("k") == "match" and x.get("src", "").startswith("Normal"):
                    m = x
                    break
            if m is None:
                continue
            # only direct matches of this statement (let x = match.. / match..;)
            top = st.get("init") if st.get("k") == "let" else (st.get("e") if st.get("k") == "expr" else st)
            if hir.strip_wrappers(top) is not m:
                continue
            sc_ty = m["scrut"].get("ty", "") or ""
            if not sc_ty.startswith("core::result::Result"):
                continue
            if hir.locals_used(m["scrut"], False) & cset:
                continue  # result of an operation on the connection itself (SRV-1/2 territory)
            arms = m["arms"]
            writes = [arm_writes_conn(a["body"], conns) for a in arms]
            later = any(arm_writes_conn(s2, conns) for s2 in items[idx + 1:])
            if not any(writes) and not later:
                continue  # not the response-deciding match
            bad = []
            for a, w in zip(arms, writes):
                leaves = any(x.get("k") in ("continue", "break", "ret") for x in hir.walk(a["body"], False))
                if not w and (not later or leaves):
                    bad.append(describe_pat(a["pat"]))
            construct = "match(%s)" % describe(m["scrut"])
            if bad:
                rep.violation("SRV-4", key, construct,
                              "arm(s) %s send no response to the client" % bad, where=hir.where(m))
            else:
                rep.ok("SRV-4", key, construct, detail={"arms": len(arms), "write_in_arms": writes,
                                                        "write_after_match": later}, where=hir.where(m))


def arm_writes_conn(body, conns):
    for x in hir.walk(body, enter_closures=False):
        if x.get("k") == "mcall" and x.get("name") in WRITE_NAMES:
            if hir.locals_used(x["recv"], False) & set(conns):
                return True
        if x.get("k") == "call":
            for a in x.get("args", []):
                if hir.locals_used(a, False) & set(conns):
                    return True
    return False


def describe(n):
    n = hir.strip_wrappers(n)
    k = n.get("k")
    if k in ("try", "await"):
        return "%s(%s)" % (k, describe(n["e"]))
    if k == "mcall":
        return "%s.%s()" % (describe(n["recv"]), n["name"])
    if k == "call":
        return "%s()" % hir.callee_name(n).split("::")[-1]
    if k == "path":
        return n.get("res", {}).get("text", "?")
    if k == "field":
        return "%s.%s" % (describe(n["e"]), n["name"])
    if k == "ret":
        return "return"
    if k == "index":
        return "%s[..]" % describe(n["e"])
    return k or "?"


def describe_pat(p):
    k = p.get("k")
    if k in ("tuplestruct", "struct"):
        return p["path"].get("text", "?")
    if k == "bind":
        return p["name"]
    if k == "wild":
        return "_"
    return k


def check_read_loop(rep, key, L, R, parents, inner_ids):
    construct = "read-loop(%s)" % describe(R)
    # (a) the read is matched directly: match read().await { Ok(0) => leave, ... }
    for p in reversed(parents):
        if p.get("k") == "match" and any(x is R for x in hir.walk(p["scrut"], False)):
            for a in p["arms"]:
                if a.get("guard") is not None:
                    continue        # a guarded arm decides nothing about a 0-byte read when its guard is false
                if not pat_is_zero(a["pat"]) and "Ok" in describe_pat(a["pat"]):
                    break           # a 0-byte read reaches the data arm: the count must be tested later (form b)
                if pat_is_zero(a["pat"]) and leaves_loop(a["body"], L.get("id"), inner_ids):
                    rep.ok("SRV-2", key, construct, detail="arm `%s` of the match on the read leaves the loop" %
                           describe_pat(a["pat"]), where=hir.where(R))
                    rep.ok("SRV-3", key, construct, detail="EOF is handled in the match on the read itself, before "
                           "any back edge", where=hir.where(R))
                    return
            break
        if p.get("k") in ("let", "assignop", "assign"):
            break
    # (b) the count is bound by a let and tested later
    bound = None
    holder = None
    for p in reversed(parents):
        if p.get("k") == "let":
            b = hir.pat_bindings(p["pat"])
            if len(b) == 1:
                bound = b[0]
            holder = p
            break
        if p.get("k") in ("assignop", "assign", "binary", "call", "mcall", "index"):
            holder = p
            break
    if bound is None:
        rep.violation("SRV-2", key, construct,
                      "the byte count of the read is %s without being tested for 0: a closed connection makes the "
                      "loop spin forever" % ("accumulated (`%s`)" % holder.get("k") if holder else "unused"),
                      where=hir.where(R))
        return
    name, bid = bound
    # find EOF test: if (n == 0) {leave}
    stmts = L["body"].get("stmts", [])
    eof_idx = None
    for idx, st in enumerate(stmts):
        for x in hir.walk(st, enter_closures=False):
            if x.get("k") == "if" and cond_is_zero_test(x["cond"], bid) and leaves_loop(x["then"], L.get("id"), inner_ids):
                eof_idx = idx
                break
            if x.get("k") == "match" and bid in hir.locals_used(x["scrut"], False):
                for a in x["arms"]:
                    if pat_is_zero(a["pat"]) and leaves_loop(a["body"], L.get("id"), inner_ids):
                        eof_idx = idx
        if eof_idx is not None:
            break
    if eof_idx is None:
        rep.violation("SRV-2", key, construct,
                      "no branch on `%s == 0` that leaves the loop: EOF on the connection makes the loop spin" % name,
                      where=hir.where(R))
        return
    rep.ok("SRV-2", key, construct, detail="`%s == 0` leaves the loop (statement %d of the loop body)" % (name, eof_idx),
           where=hir.where(R))
    # SRV-3: every `continue` of L comes after the EOF test
    early = []
    for idx, st in enumerate(stmts):
        for x in hir.walk(st, enter_closures=False):
            if x.get("k") == "continue" and x.get("target") == L.get("id") and idx < eof_idx:
                early.append(hir.where(x))
    if early:
        rep.violation("SRV-3", key, construct,
                      "`continue` of the read loop at %s runs before the EOF test: an iteration can re-enter without "
                      "progress" % early, where=early[0])
    else:
        rep.ok("SRV-3", key, construct, detail="no back edge before the EOF test", where=hir.where(R))


def _index_on(n, bid):
    """index nodes (k=index) whose indexed expression is the local `bid` (through & / &mut / parens)"""
    out = []
    for x in hir.walk(n, enter_closures=False):
        if x.get("k") == "index":
            e = hir.strip_wrappers(x["e"])
            if e.get("k") == "path" and e.get("res", {}).get("id") == bid:
                out.append(x)
    return out


def _range_start(i):
    """('none',) for RangeTo/RangeFull, ('expr', node) for Range/RangeFrom, None if the index is not a range"""
    i = hir.strip_wrappers(i)
    if i.get("k") == "struct" and "ops::range::Range" in i.get("path", {}).get("def", ""):
        for f in i.get("fields", []):
            if f["name"] == "start":
                return ("expr", hir.strip_wrappers(f["e"]))
        return ("none",)
    if i.get("k") == "path" and "RangeFull" in json_s(i):
        return ("none",)
    return None


def json_s(n):
    import json
    return json.dumps(n)[:400]


def check_acc_reset(rep, key, body, loops, L, R):
    """SRV-6: per-connection read state does not leak into the next connection: the byte counter of an accumulating read
    loop that sits inside an accept loop is declared (or unconditionally reset to 0) inside that accept loop, before the
    read loop - on every iteration, whichever way the previous connection ended."""
    e = hir.strip_wrappers(R["e"])
    args = e.get("args", [])
    if not args:
        return
    dest = hir.strip_wrappers(args[0])
    if dest.get("k") != "index":
        return
    st = _range_start(dest["i"])
    if st is None or st[0] != "expr" or st[1].get("k") != "path" or "id" not in st[1].get("res", {}):
        return
    aid, aname = st[1]["res"]["id"], st[1]["res"].get("local", "?")
    # the accept loop around this read loop
    A = None
    for cand in loops:
        if cand is L:
            continue
        inside = any(x is L for x in hir.walk(cand["body"], enter_closures=False))
        if inside and any(is_accept_await(n) for (n, _) in direct_nodes(cand)):
            A = cand
    if A is None:
        # the read loop lives in a helper that reads ONE request head: a counter declared in that helper is fresh for
        # every call (the helper is not an accept loop itself)
        if any(x.get("k") == "let" and any(i == aid for _, i in hir.pat_bindings(x["pat"]))
               for x in hir.walk(body, enter_closures=False)) and not any(
                   is_accept_await(n) for n in hir.walk(body, enter_closures=False)):
            rep.ok("SRV-6", key, "read counter `%s` per connection" % aname,
                   detail="declared in the helper that reads one request", where=hir.where(R))
        return
    construct = "read counter `%s` per connection" % aname
    declared_inside = any(x.get("k") == "let" and any(i == aid for _, i in hir.pat_bindings(x["pat"]))
                          for x in hir.walk(A["body"], enter_closures=False))
    if declared_inside:
        rep.ok("SRV-6", key, construct, detail="declared inside the accept loop", where=hir.where(R))
        return
    # declared outside: an unconditional `acc = 0` among the statements of the accept loop body that precede the read loop
    stmts = A["body"].get("stmts", [])
    reset = False
    for s_ in stmts:
        if any(x is L for x in hir.walk(s_, enter_closures=False)) or s_ is L:
            break
        x = hir.strip_wrappers(s_) if isinstance(s_, dict) else {}
        if x.get("k") in ("semi", "expr"):
            x = hir.strip_wrappers(x.get("e", {}))
        if x.get("k") == "assign":
            l_ = hir.strip_wrappers(x.get("l", {}))
            if l_.get("k") == "path" and l_.get("res", {}).get("id") == aid and hir.lit_int(x.get("r", {})) == 0:
                reset = True
    if reset:
        rep.ok("SRV-6", key, construct, detail="reset at the top of every accept iteration", where=hir.where(R))
    else:
        rep.violation("SRV-6", key, construct,
                      "the byte counter `%s` of the request read loop lives outside the accept loop and is not reset at the "
                      "start of every connection: after a connection that ended early (closed, reset, over-long request) the "
                      "next client's request is appended to stale bytes or read into an already-full buffer, and is never "
                      "answered" % aname, where=hir.where(R))


def check_prefix_scan(rep, key, L, R):
    e = hir.strip_wrappers(R["e"])
    args = e.get("args", [])
    if not args:
        return
    dest = hir.strip_wrappers(args[0])
    if dest.get("k") != "index":
        return
    b = hir.strip_wrappers(dest["e"])
    st = _range_start(dest["i"])
    if b.get("k") != "path" or "id" not in b.get("res", {}) or st is None or st[0] != "expr" or \
            st[1].get("k") != "path":
        return
    bid, bname = b["res"]["id"], b["res"].get("local", "?")
    aid, aname = st[1]["res"].get("id"), st[1]["res"].get("local", "?")
    construct = "accumulating-read-loop(%s[%s..])" % (bname, aname)
    stmts = L["body"].get("stmts", []) + ([L["body"]["expr"]] if L["body"].get("expr") else [])
    # statement index of the accumulator update
    upd = None
    for idx, s_ in enumerate(stmts):
        for x in hir.walk(s_, enter_closures=False):
            if x.get("k") in ("assignop", "assign"):
                l = hir.strip_wrappers(x.get("l", {}))
                if l.get("k") == "path" and l.get("res", {}).get("id") == aid and upd is None:
                    upd = idx
    # aliases: locals let-bound (in the loop) to expressions that index the buffer
    alias = {}
    for idx, s_ in enumerate(stmts):
        for x in hir.walk(s_, enter_closures=False):
            if x.get("k") == "let" and x.get("init") is not None:
                used = hir.locals_used(x["init"], False)
                ix = [n for n in _index_on(x["init"], bid) if n.get("eid") != dest.get("eid")]
                for u_ in used:
                    if u_ in alias:
                        ix = ix + [n for (n, _) in alias[u_]]
                if ix:
                    for _, i_ in hir.pat_bindings(x["pat"]):
                        alias[i_] = [(n, idx) for n in ix]
    n_tests = 0
    for idx, s_ in enumerate(stmts):
        for x in hir.walk(s_, enter_closures=False):
            if x.get("k") != "if":
                continue
            sites = [(n, idx) for n in _index_on(x["cond"], bid)]
            for u_ in hir.locals_used(x["cond"], False):
                sites += alias.get(u_, [])
            if not sites:
                continue
            n_tests += 1
            for (n, sidx) in sites:
                rs = _range_start(n["i"])
                ok, why = False, ""
                if rs is None:
                    ok, why = True, "single element"       # not a scan
                elif rs[0] == "none":
                    ok, why = True, "range without a start"
                else:
                    se = rs[1]
                    if hir.lit_int(se) == 0:
                        ok, why = True, "range starts at 0"
                    elif se.get("k") == "mcall" and se.get("name") == "saturating_sub":
                        rv = hir.strip_wrappers(se["recv"])
                        k_ = hir.lit_int(se["args"][0]) if se.get("args") else None
                        if rv.get("k") == "path" and rv.get("res", {}).get("id") == aid and k_ is not None and \
                                k_ >= 3 and upd is not None and sidx <= upd:
                            ok, why = True, "range starts at the pre-increment accumulator minus %d" % k_
                if ok:
                    rep.ok("SRV-5", key, construct, detail="test at %s inspects %s: %s" % (hir.where(x), describe(n), why),
                           where=hir.where(n))
                else:
                    rep.violation("SRV-5", key, construct,
                                  "the loop-ending test at %s inspects only `%s`, not the whole received prefix: a "
                                  "terminator split across two reads is never found and the connection (and the "
                                  "single-threaded accept loop) waits forever" % (hir.where(x), describe(n)),
                                  where=hir.where(n))
    if n_tests == 0:
        rep.ok("SRV-5", key, construct, detail="no loop-ending test inspects the buffer contents", where=hir.where(R))


def pat_is_zero(p):
    for x in hir.walk(p):
        if x.get("k") == "expr" and isinstance(x.get("lit"), dict) and x["lit"].get("int") == 0:
            return True
    return False


def cond_is_zero_test(c, bid):
    c = hir.strip_wrappers(c)
    if c.get("k") == "binary" and c.get("op") in ("==", "<=", "<"):
        l, r = hir.strip_wrappers(c["l"]), hir.strip_wrappers(c["r"])
        for a, b in ((l, r), (r, l)):
            if a.get("k") == "path" and a.get("res", {}).get("id") == bid:
                v = hir.lit_int(b)
                if c["op"] == "==" and v == 0:
                    return True
                if c["op"] == "<" and a is l and v == 1:
                    return True
                if c["op"] == "<=" and a is l and v == 0:
                    return True
    return False


def check_request_buffer(rep, key, R, prog=None, h=None):
    """SRV-9: the array the request is accumulated in"""
    import re
    e = hir.strip_wrappers(R["e"])
    args = e.get("args", [])
    if not args:
        return
    dest = hir.strip_wrappers(args[0])
    if dest.get("k") != "index":
        return
    base = hir.strip_wrappers(dest["e"])
    m = re.search(r"\[u8; (\d+)\]", base.get("ty") or "")
    if not m and prog is not None and h is not None and base.get("k") == "path" and "[u8]" in (base.get("ty") or ""):
        # the buffer is a slice PARAMETER of a helper: the arrays its callers pass
        pidx = [i for i, p_ in enumerate(h.get("params", [])) if p_.get("id") == base.get("res", {}).get("id")] or \
            [i for i, p_ in enumerate(h.get("params", [])) if p_.get("name") and p_.get("name") == base.get("res", {}).get("local")]
        sizes = []
        fname = key.split("::")[-1]
        if pidx:
            for k2, (u2, h2) in prog.hir.items():
                if "::tests::" in k2:
                    continue
                for c in hir.walk(hir.simplify(hir.fn_body(h2)), enter_closures=True):
                    if c.get("k") == "call" and hir.callee_name(c).split("::")[-1] == fname and len(c.get("args", [])) > pidx[0]:
                        a = hir.strip_wrappers(c["args"][pidx[0]])
                        m2 = re.search(r"\[u8; (\d+)\]", a.get("ty") or "")
                        if m2:
                            sizes.append(int(m2.group(1)))
        if sizes:
            m = re.match(r"(\d+)", str(min(sizes)))
            n = min(sizes)
            name = base.get("res", {}).get("local", "?")
            if n >= 2048:
                rep.ok("SRV-9", key, "request buffer `%s`" % name, detail={"bytes": n, "passed_by_callers": len(sizes)}, where=hir.where(R))
            else:
                rep.violation("SRV-9", key, "request buffer `%s`" % name,
                              "the request head is read into a buffer of %d bytes passed by the caller: a well-formed GET head "
                              "longer than that (within the promised 2048 bytes) is dropped without an answer" % n, where=hir.where(R))
        return
    if not m:
        return
    n = int(m.group(1))
    name = base.get("res", {}).get("local", "?") if base.get("k") == "path" else "?"
    if n >= 2048:
        rep.ok("SRV-9", key, "request buffer `%s`" % name, detail={"bytes": n}, where=hir.where(R))
    else:
        rep.violation("SRV-9", key, "request buffer `%s`" % name,
                      "the request head is read into %d bytes: a well-formed GET whose head is longer than that (but within the "
                      "2048 bytes the exporter promises to accept) is treated as over-long and dropped without an answer" % n,
                      where=hir.where(R))


def check_response_buffer(rep, key, body, loops):
    """SRV-8: in an accept loop, a call that is handed `&mut X` where X is declared OUTSIDE the loop and later written to
    the connection: an unconditional `X.clear()` precedes it among the statements of the loop body"""
    for A in loops:
        if not any(is_accept_await(n) for (n, _) in direct_nodes(A)):
            continue
        n_inst = [0]
        _check_response_buffer_in(rep, key, A, n_inst)
        if n_inst[0] == 0:
            rep.ok("SRV-8", key, "no response buffer outlives a connection", where=hir.where(A))


def _check_response_buffer_in(rep, key, A, n_inst):
    if True:
        stmts = A["body"].get("stmts", [])
        declared = set()
        for x in hir.walk(A["body"], enter_closures=False):
            if x.get("k") == "let":
                declared.update(i for _, i in hir.pat_bindings(x["pat"]))
        cleared = set()
        for s_ in stmts:
            x = hir.strip_wrappers(s_) if isinstance(s_, dict) else {}
            if x.get("k") in ("semi", "expr"):
                x = hir.strip_wrappers(x.get("e", {}))
            if x.get("k") == "mcall" and x.get("name") == "clear":
                r = hir.strip_wrappers(x.get("recv", {}))
                if r.get("k") == "path" and "id" in r.get("res", {}):
                    cleared.add(r["res"]["id"])
                continue
            # calls (awaited) in this statement that take &mut X of an outer String/Vec
            for c in hir.walk(s_, enter_closures=False):
                if c.get("k") != "call":
                    continue
                for a in c.get("args", []):
                    if a.get("k") != "addrof" or not a.get("mut"):
                        continue
                    p = hir.strip_wrappers(a.get("e", {}))
                    if p.get("k") != "path" or "id" not in p.get("res", {}):
                        continue
                    xid = p["res"]["id"]
                    ty = p.get("ty") or ""
                    if xid in declared or not ("String" in ty or "Vec<u8>" in ty):
                        continue
                    construct = "response buffer `%s`" % p["res"].get("local", "?")
                    n_inst[0] += 1
                    if xid in cleared:
                        rep.ok("SRV-8", key, construct, detail="cleared at the top level of the accept loop before the call",
                               where=hir.where(c))
                    else:
                        rep.violation("SRV-8", key, construct,
                                      "`%s` lives across connections and is handed to %s without an unconditional clear() before "
                                      "it in the accept loop: whatever an earlier connection left in it (a response that could not "
                                      "be written) is sent to the next client" % (p["res"].get("local", "?"),
                                                                                   hir.callee_name(c).split("::")[-1]),
                                      where=hir.where(c))
