"""Operator semantics of statime's Time / Duration types (shared by C16 OPS-1 and C09 MEAS-6).

Every `core::ops` impl on Time and Duration is reduced to a sign-aware linear form over its parameters: each
definition of the result (or each store into *self for the op-assign forms) is taken with the path conditions under
which it is reached, `unsigned_abs(x)` is rewritten to x / -x according to the `is_negative(x)` literal on that path,
the representation wrappers (`nanos()`, `.inner`, `from_fixed_nanos`, Time{..}/Duration{..}) are looked through, and
the remaining add/sub/neg tree is flattened with rational coefficients.  The form must equal the operator's meaning
(a+b, a-b, -a) on EVERY path; multiplicative operators must apply the fixed-point operation to (self, rhs) in that
order.  The C09/C14/C18 formula rules interpret calls of these operators as arithmetic, so this rule is what makes
that interpretation sound."""
from sa import mir, dataflow as df, conds as cnd
from sa.stores import stores

LINEAR = {
    "<Time as core::ops::arith::Add<Duration>>::add": "+arg1 +arg2",
    "<Time as core::ops::arith::Sub<Duration>>::sub": "+arg1 -arg2",
    "<Time as core::ops::arith::Sub<Time>>::sub": "+arg1 -arg2",
    "<Duration as core::ops::arith::Add<Duration>>::add": "+arg1 +arg2",
    "<Duration as core::ops::arith::Sub<Duration>>::sub": "+arg1 -arg2",
    "<Duration as core::ops::arith::Neg>::neg": "-arg1",
}
ASSIGN = {
    "<Time as core::ops::arith::AddAssign<Duration>>::add_assign": "+arg1 +arg2",
    "<Time as core::ops::arith::SubAssign<Duration>>::sub_assign": "+arg1 -arg2",
    "<Duration as core::ops::arith::AddAssign<Duration>>::add_assign": "+arg1 +arg2",
    "<Duration as core::ops::arith::SubAssign<Duration>>::sub_assign": "+arg1 -arg2",
}
MULT = {
    "<Duration as core::ops::arith::Mul<TF>>::mul": "mul",
    "<Duration as core::ops::arith::Div<TF>>::div": "div",
    "<Duration as core::ops::arith::Rem<Duration>>::rem": "rem",
}
MULT_ASSIGN = {
    "<Duration as core::ops::arith::MulAssign<TF>>::mul_assign": "mul",
    "<Duration as core::ops::arith::DivAssign<TF>>::div_assign": "div",
    "<Duration as core::ops::arith::RemAssign<Duration>>::rem_assign": "rem",
}
WRAP_CALLS = ("nanos", "from_fixed_nanos", "to_fixed", "clone")
ABS_CALLS = ("unsigned_abs", "abs", "wrapping_abs")


def _rewrite(t, signs, body):
    """look through representation wrappers; resolve |x| from the sign literals of the path"""
    k = t[0]
    if k in ("ref", "deref", "promoted"):
        return _rewrite(t[1], signs, body)
    if k == "call":
        name, args = t[2], t[3]
        if name in WRAP_CALLS and len(args) == 1:
            return _rewrite(args[0], signs, body)
        if name in ABS_CALLS and len(args) == 1:
            x = _rewrite(args[0], signs, body)
            cx = df.canon(x, body)
            if cx in signs:
                return ("call", "core::ops::neg", "neg", (x,)) if signs[cx] else x
            return ("call", t[1], name, (x,))
        return ("call", t[1], name, tuple(_rewrite(a, signs, body) for a in args))
    if k == "field" and t[2] == "inner":
        return _rewrite(t[1], signs, body)
    if k == "agg" and len(t[3]) == 1 and t[3][0][0] == "inner" and t[1].split("::")[-1] in ("Time", "Duration"):
        return _rewrite(t[3][0][1], signs, body)
    if k == "bin":
        return ("bin", t[1], _rewrite(t[2], signs, body), _rewrite(t[3], signs, body))
    if k == "un":
        return ("un", t[1], _rewrite(t[2], signs, body))
    return t


def _split_phi(c, b, d, tr, lits):
    """`let x = if neg { a - m } else { a + m }; T { inner: x }`: the value is a phi of the branch values; split the
    row into one row per definition of the merged local, each with the path literals of ITS definition"""
    if "phi(" not in df.canon(tr, b) or d[0] != "assign":
        return [(tr, lits)]
    r = d[1]
    ops = []
    if r["k"] == "agg":
        ops = r["ops"]
    elif r["k"] == "use":
        ops = [r["op"]]
    def chase(l_):
        for _ in range(6):
            ds = c.d.whole.get(l_, [])
            if len(ds) == 1 and ds[0][2][0] == "assign" and ds[0][2][1]["k"] == "use":
                p_ = mir.op_place(ds[0][2][1]["op"])
                if p_ is not None and not p_["proj"]:
                    l_ = p_["l"]
                    continue
            break
        return l_
    multi = []
    which = {}
    for o in ops:
        p = mir.op_place(o)
        if p is not None and not p["proj"]:
            l_ = chase(p["l"])
            if len(c.d.whole.get(l_, [])) > 1:
                multi.append(l_)
                which[id(o)] = l_
    if len(multi) != 1:
        return [(tr, lits)]
    l = multi[0]
    rows = []
    for (bi2, si2, d2) in c.d.whole[l]:
        v = c.prov.rvalue_tree(d2[1]) if d2[0] == "assign" else c.prov.call_tree(d2[1])
        # rebuild the result with this definition in place of the merged local
        if r["k"] == "agg":
            fs = r.get("fields") or [str(i) for i in range(len(ops))]
            sub = tuple((f, v if which.get(id(o)) == l else c.prov.op_tree(o)) for f, o in zip(fs, ops))
            t2 = ("agg", r["name"], r.get("variant"), sub)
        else:
            t2 = v
        rows.append((t2, set(lits) | set(c.must_literals(bi2))))
    return rows


def _signs(lits, body):
    """{canon(x): True if x is known negative on this path, False if known non-negative}"""
    out = {}
    for l in lits:
        if l[0] == "bool":
            tr = df.strip(l[1])
            if tr[0] == "call" and tr[2] in ("is_negative", "is_positive") and len(tr[3]) == 1:
                x = _rewrite(tr[3][0], {}, body)
                if tr[2] == "is_negative":
                    out[df.canon(x, body)] = bool(l[2])
                elif l[2]:            # is_positive true -> non-negative; false says nothing about the sign of 0
                    out[df.canon(x, body)] = False
        if l[0] == "cmp":
            # x < 0 / x >= 0 forms
            op, a, b = l[1], l[2], l[3]
            if df.strip(b)[0] == "const" and df.strip(b)[1] == 0:
                x = df.canon(_rewrite(a, {}, body), body)
                if op == "lt":
                    out[x] = True
                elif op == "ge":
                    out[x] = False
    return out


def _norm(d):
    """`argN.inner` (the single representation field) is the value argN"""
    out = {}
    for k, v in d.items():
        if k.endswith(".inner"):
            k = k[:-6]
        out[k] = out.get(k, 0) + v
    return {k: v for k, v in out.items() if v != 0}


def check_ops(rep, prog, rid):
    n = 0
    want_keys = dict(LINEAR)
    want_keys.update(ASSIGN)
    want_keys.update(MULT)
    want_keys.update(MULT_ASSIGN)
    found = set()
    for b in sorted(prog.bodies.values(), key=lambda x: x.key):
        if b.unit.name != "statime-lib" or not (b.key.startswith("statime::time::instant::<Time as core::ops::") or
                                                b.key.startswith("statime::time::duration::<Duration as core::ops::")):
            continue
        suffix = b.key.split("::", 3)[3]
        if suffix not in want_keys:
            rep.violation(rid, b.key, "operator", "operator impl on Time/Duration without a stated meaning in the rule "
                          "table (rules/timeops.py): %s" % suffix, where=b.loc())
            continue
        found.add(suffix)
        nb = df._Positional(b)
        c = cnd.conds(prog, b)
        rows = []   # (tree, literals, line)
        if suffix in LINEAR or suffix in MULT:
            for (bi, si, d) in c.d.whole.get(0, []):
                tr = c.prov.rvalue_tree(d[1]) if d[0] == "assign" else c.prov.call_tree(d[1])
                rows.extend(_split_phi(c, b, d, tr, c.must_literals(bi)))
        else:
            sts, pv = stores(b)
            for s in sts:
                if s["lhs"] in ("self", b.local_name(1) or "self") or s["lhs"].startswith("self"):
                    rows.append((s["whole"], c.must_literals(s["bb"])))
        if not rows:
            rep.violation(rid, b.key, "operator", "no result definition / store into *self found", where=b.loc())
            continue
        bad = []
        for (tr, lits) in rows:
            t2 = _rewrite(tr, _signs(lits, nb), nb)
            if suffix in LINEAR or suffix in ASSIGN:
                want = df.parse_lin((LINEAR.get(suffix) or ASSIGN.get(suffix)))
                got = _norm(df.lin(t2, nb))
                if got != want:
                    bad.append("`%s` under [%s] means %s, not %s" % (
                        df.canon(tr, nb), "; ".join(cnd.lit_canon(l, b, True) for l in lits), df.lin_str(got),
                        df.lin_str(want)))
            else:
                opn = MULT.get(suffix) or MULT_ASSIGN.get(suffix)
                t3 = df.strip(t2)
                ok = t3[0] == "call" and t3[2] == opn and len(t3[3]) == 2 and \
                    _norm(df.lin(t3[3][0], nb)) == df.parse_lin("+arg1") and \
                    _norm(df.lin(t3[3][1], nb)) == df.parse_lin("+arg2")
                if not ok:
                    bad.append("`%s` is not %s(self, rhs)" % (df.canon(tr, nb), opn))
        # all paths covered? the literal sets of the rows must be exhaustive: accept a single unconditional row or
        # complementary pairs on one bool atom
        if bad:
            rep.violation(rid, b.key, "operator meaning", "; ".join(bad), where=b.loc())
        else:
            n += 1
            rep.ok(rid, b.key, "operator meaning %s" % (want_keys[suffix]), detail={"rows": len(rows)}, where=b.loc())
    for k in sorted(set(want_keys) - found):
        rep.anchor_missing(rid, "operator impl %s not found" % k)
    return n
