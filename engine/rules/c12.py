"""C12 — no stuck states: every state change is paired with the timers its target state needs (TMR-1..4)."""
from sa import mir, dataflow as df, conds as cnd, fsm
from sa.stores import stores
from sa.facts import AnchorMissing
from rules import fsm_common as fc

LEVEL = "other"
ANCHOR_RULE = "TMR-1"
EXPLANATION = (
    "The port state machine is extracted from MIR: one row per call of set_forced_port_state with the set of "
    "prior states (path conditions on self.port_state, bool temporaries expanded), the target state and the "
    "PortAction variants constructed in blocks that post-dominate the call. TMR-1: every row carries the timer "
    "requests its target state needs (Master: announce+sync timers; Slave: announce-receipt+delay-request; "
    "Listening: announce-receipt), delivered on every path to the return, for InBmca functions through a store "
    "into lifecycle.pending_action that post-dominates the transition. TMR-2: the periodic senders (send_announce, "
    "send_sync, send_e2e_delay_request, send_p2p_delay_request) and the accepting path of handle_announce re-arm "
    "their own timer on every return path inside their active state (paths through the Err arm of "
    "Message::serialize are excluded, see assumptions). TMR-3: Port::new creates the initial announce-receipt "
    "timer request and end_bmca hands out lifecycle.pending_action. TMR-4: the multiport-disable age written back "
    "by step_announce_age is old age + step (otherwise a passive port never ages out)."
    ' TMR-8 (shared with C06 FM-8): the ageing step and the qualification-window interval arrive unchanged at the foreign master records, so a regularly announcing master can qualify.'
    ' TMR-9 (= C06 FM-10): aged-out foreign master records are removed. TMR-8 also covers the source of the ageing step (exactly 2^log_bmca_interval seconds, fractional below one second).'
)
NOT_DECIDED = "liveness over time (bounded number of intervals), host timer behaviour, that requested durations are sensible"
ASSUMPTIONS = ["Message::serialize into the 1024-byte packet buffer cannot fail for messages the library builds "
               "(decided separately by the C03/C15 margin rules); its Err arm is not counted as a return path",
               "the host arms exactly the timers the returned actions request (Port docs)"]

SENDERS = [
    # (function, active states or None, own timer)
    ("send_announce", {"Master"}, "ResetAnnounceTimer"),
    ("send_sync", {"Master"}, "ResetSyncTimer"),
    ("send_e2e_delay_request", {"Slave"}, "ResetDelayRequestTimer"),
    ("send_p2p_delay_request", None, "ResetDelayRequestTimer"),
]


def serialize_err_blocks(prog, body):
    c = cnd.conds(prog, body)
    out = set()
    for bi in range(len(body.blocks)):
        if bi not in c.cfg.reach:
            continue
        for l in c.must_literals(bi):
            if l[0] == "variant" and l[2] == frozenset(["Err"]):
                t = df.strip(l[1])
                if t[0] == "call" and t[2] == "serialize":
                    out.add(bi)
    return out


def bypass_path(body, starts, through, excluded):
    """Is EXIT reachable from a start block without passing a `through` block (excluded blocks are sinks)?
    Returns a witness path of blocks or None."""
    g = mir.cfg(body)
    for s0 in starts:
        prev = {s0: None}
        st = [s0]
        while st:
            x = st.pop()
            if x in through or x in excluded:
                continue
            if x == g.EXIT:
                path = []
                while x is not None:
                    path.append(x)
                    x = prev[x]
                return list(reversed(path))
            for y in g.succ[x]:
                if y not in prev:
                    prev[y] = x
                    st.append(y)
    return None


def run(ctx):
    rep = ctx.report
    prog = ctx.prog("default")
    rep.rule("TMR-1", "every port-state transition carries the timer requests its target state needs on every path", floor=13)
    rep.rule("TMR-2", "periodic senders (and the receipt-timeout handler) re-arm their timer on every return path of their active state", floor=6)
    rep.rule("TMR-3", "initial announce-receipt timer request exists and end_bmca returns pending_action", floor=2)
    rep.rule("TMR-4", "multiport-disable age written back = old age + step", floor=1)
    rep.rule("TMR-6", "the duration of every timer request comes from that timer's own configuration item", floor=14)
    rep.rule("TMR-5", "end_bmca hands out the timer requests recorded during the BMCA (lifecycle.pending_action) and "
                      "start_bmca/end_bmca keep port_state, config and multiport_disable", floor=2)
    fc.check_lifecycle_transfer(rep, prog, "TMR-5", fields={"port_state", "config", "multiport_disable"},
                                check_pending=True)

    # ---- TMR-1
    rows = fsm.transitions(prog)
    rep.extra["fsm_rows"] = [fsm.row_str(r) for r in rows]
    for r in rows:
        b = r["body"]
        to = r["to"]
        fn = b.key
        construct = "->%s" % ("/".join(sorted(to)) if to else "?")
        if not to or len(to) != 1:
            rep.violation("TMR-1", fn, construct, "target state of the transition is not a constant variant: %s" % to,
                          where=fc.where(b, r["line"]))
            continue
        tgt = list(to)[0]
        need = fc.REQUIRED_TIMERS[tgt]
        have = set(r["actions_post"])
        missing = need - have
        delivered = True
        if need and not missing:
            # delivery: functions returning () must store the list into lifecycle.pending_action after the call
            ret_ty = b.local_ty(0)["s"]
            if "PortActionIterator" not in ret_ty:
                sts, pv = stores(b)
                g = mir.cfg(b)
                delivered = any(s["lhs"].endswith("lifecycle.pending_action") and
                                (s["bb"] == r["bb"] or g.postdominates(s["bb"], r["bb"])) for s in sts)
        if missing:
            rep.violation("TMR-1", fn, construct,
                          "transition {%s} -> %s requests %s on every path but the target state needs %s: the port "
                          "would wait on a timer that was never armed" % (
                              ",".join(sorted(r["from"])), tgt, sorted(have) or "no timer", sorted(need)),
                          where=fc.where(b, r["line"]))
        elif not delivered:
            rep.violation("TMR-1", fn, construct,
                          "timer requests for -> %s are constructed but not stored into lifecycle.pending_action on "
                          "every path" % tgt, where=fc.where(b, r["line"]))
        else:
            rep.ok("TMR-1", fn, "%s@{%s}" % (construct, "".join(sorted(fsm.SHORT[s] for s in r["from"]))),
                   detail={"needs": sorted(need), "constructed_on_every_path": sorted(have)},
                   where=fc.where(b, r["line"]), nontrivial=bool(need))

    # ---- TMR-2
    for (fname, states, timer) in SENDERS:
        try:
            b = prog.one(name=fname, self_name="Port", crate="statime-lib")
        except AnchorMissing as e:
            rep.anchor_missing("TMR-2", str(e))
            continue
        check_rearm(rep, prog, b, states, timer, None)
    try:
        b = prog.one(name="handle_announce", self_name="Port", crate="statime-lib")
        check_rearm(rep, prog, b, None, "ResetAnnounceReceiptTimer", "register_announce_message")
    except AnchorMissing as e:
        rep.anchor_missing("TMR-2", str(e))

    # the receipt-timeout handler itself: when it does not make the port Master it must re-arm the receipt timer,
    # also when the port already is Listening (otherwise a slave-only port waits on a timer nobody armed)
    try:
        b = prog.one(name="handle_announce_receipt_timer", self_name="Port", crate="statime-lib")
        check_rearm(rep, prog, b, None, ("ResetAnnounceReceiptTimer", "ResetAnnounceTimer"), None)
    except AnchorMissing as e:
        rep.anchor_missing("TMR-2", str(e))

    # ---- TMR-6
    check_durations(rep, prog)
    # ---- TMR-7
    rep.rule("TMR-7", "every BMCA decision is applied from every prior state (a decision skipped for some state leaves the "
                      "port where nothing will move it) - shared with C05 BMCA-5", floor=5)
    from rules import c05 as _c05
    _c05.check_decision_application(rep, prog, "TMR-7")

    # ---- TMR-8
    rep.rule("TMR-8", "a regularly announcing master can qualify: records age by the BMCA interval actually elapsed and the "
                      "qualification window is counted in the port's announce interval (a port that can never qualify its "
                      "master stays Listening for ever) - shared with C06 FM-8", floor=7)
    from rules import flow_common as _flow
    _flow.check_ageing_step(rep, prog, "TMR-8")
    _flow.check_bmca_step_source(rep, prog, "TMR-8")
    rep.rule("TMR-9", "a foreign master record that aged out is removed (a full list ignores new masters: the port could never "
                      "follow a later, better master) - shared with C06 FM-10", floor=1)
    _flow.check_record_removal(rep, prog, "TMR-9")
    _flow.check_window_interval(rep, prog, "TMR-8")

    # ---- TMR-3
    try:
        b = prog.one(name="new", self_name="Port", crate="statime-lib")
        acts = [v for (_, v, _) in fsm.action_sites(b)]
        sts, pv = stores(b)
        if "ResetAnnounceReceiptTimer" in acts:
            rep.ok("TMR-3", b.key, "initial ResetAnnounceReceiptTimer", where=b.loc())
        else:
            rep.violation("TMR-3", b.key, "initial ResetAnnounceReceiptTimer",
                          "Port::new no longer creates the initial announce receipt timer request (found %s)" % acts,
                          where=b.loc())
        e = prog.one(name="end_bmca", self_name="Port", crate="statime-lib")
        pv = df.Prov(e)
        t = pv.local_tree(0)
        s = df.canon(t, e)
        if "lifecycle.pending_action" in s:
            rep.ok("TMR-3", e.key, "returns lifecycle.pending_action", where=e.loc(), detail=s[-120:])
        else:
            rep.violation("TMR-3", e.key, "returns lifecycle.pending_action",
                          "end_bmca does not return the pending actions of the BMCA phase: %s" % s[-200:], where=e.loc())
    except AnchorMissing as e:
        rep.anchor_missing("TMR-3", str(e))

    # ---- TMR-4
    try:
        b = prog.one(name="step_announce_age", self_name="Port", crate="statime-lib")
        sts, pv = stores(b)
        found = False
        for s in sts:
            if s["lhs"] == "self.multiport_disable":
                form = df.lin(s["tree"], b)
                keys = sorted(form.keys())
                found = True
                okform = len(form) == 2 and "step" in form and form["step"] == 1 and any(
                    "multiport_disable" in k for k in keys) and all(v == 1 for v in form.values())
                if okform:
                    rep.ok("TMR-4", b.key, "age+step", detail=df.lin_str(form), where=fc.where(b, s["line"]))
                else:
                    rep.violation("TMR-4", b.key, "age+step",
                                  "multiport_disable is written back as %s, expected old age + step" % df.lin_str(form),
                                  where=fc.where(b, s["line"]))
        if not found:
            rep.violation("TMR-4", b.key, "age+step",
                          "step_announce_age never writes the advanced age back into multiport_disable: a port disabled "
                          "by a same-instance Announce stays Passive forever", where=b.loc())
    except AnchorMissing as e:
        rep.anchor_missing("TMR-4", str(e))


def _factors(t):
    """flatten a product tree into its factors (casts stripped)"""
    t = df.strip(t)
    while t[0] == "cast":
        t = df.strip(t[2])
    if t[0] == "bin" and t[1] in ("Mul", "MulWithOverflow"):
        return _factors(t[2]) + _factors(t[3])
    if t[0] == "call" and t[2] == "mul" and len(t[3]) == 2:
        return _factors(t[3][0]) + _factors(t[3][1])
    return [t]


def _zero_duration(c):
    return c in ("from_secs(0)", "ZERO", "from_millis(0)", "from_nanos(0)", "from_micros(0)")


def check_durations(rep, prog):
    """TMR-6: the duration of every timer request is derived from the configuration item of THAT timer."""
    import re
    INTERVAL_OF = {"ResetAnnounceTimer": "self.config.announce_interval", "ResetSyncTimer": "self.config.sync_interval"}
    n = 0
    for b in sorted(prog.bodies.values(), key=lambda x: x.key):
        if b.unit.name != "statime-lib" or b.is_test():
            continue
        pv = None
        for bi, si, st in mir.iter_stmts(b):
            r = st.get("r") if st["k"] == "assign" else None
            if not r or r["k"] != "agg" or r.get("ak") != "adt" or not r.get("name", "").endswith("PortAction"):
                continue
            v = r.get("variant") or ""
            if not v.startswith("Reset") or not v.endswith("Timer") or not r["ops"]:
                continue
            pv = pv or df.Prov(b)
            tr = df.strip(pv.op_tree(r["ops"][0]))
            c = df.canon(tr, b)
            where = fc.where(b, st["sp"][1])
            ok, why = False, ""
            if v == "ResetAnnounceReceiptTimer":
                ok = re.fullmatch(r"announce_duration\((self\.)?config, (self\.)?rng\)", c) is not None
                why = "must be config.announce_duration(rng)"
            elif v in INTERVAL_OF:
                ok = _zero_duration(c) or c == "as_core_duration(%s)" % INTERVAL_OF[v]
                why = "must be 0 (start immediately) or %s" % INTERVAL_OF[v]
            elif v == "ResetDelayRequestTimer":
                if _zero_duration(c):
                    ok = True
                elif tr[0] == "call" and tr[2] == "mul_f64" and len(tr[3]) == 2:
                    base = df.strip(tr[3][0])
                    fac = sorted(df.canon(x, b) for x in _factors(tr[3][1]))
                    want_arg = {"send_e2e_delay_request": "E2E", "send_p2p_delay_request": "P2P"}.get(b.name)
                    base_ok = base[0] == "call" and base[2] == "as_core_duration" and \
                        df.strip(base[3][0]) == ("path", ("arg", 2), ()) and want_arg is not None
                    fac_ok = fac == sorted(["2.0", "sample(self.rng, Open01{})"])
                    ok = base_ok and fac_ok and delay_interval_callers(prog, b, want_arg)
                why = "must be 0 or interval(of the port's delay mechanism) * U(0,1) * 2"
            elif v == "ResetFilterUpdateTimer":
                ok = c.endswith("next_update")
                why = "must be the filter's next_update"
            else:
                why = "unknown timer request"
            if ok:
                n += 1
                rep.ok("TMR-6", b.key, "%s duration" % v, detail=c, where=where)
            else:
                rep.violation("TMR-6", b.key, "%s duration" % v, "%s is requested with duration `%s`: %s" % (v, c, why),
                              where=where)
    # the receipt timeout itself
    try:
        ad = prog.one(name="announce_duration", self_name="PortConfig", crate="statime-lib")
        tr = df.strip(df.Prov(ad).local_tree(0))
        ok = False
        c = df.canon(tr, ad)
        if tr[0] == "call" and tr[2] == "mul_f64" and len(tr[3]) == 2:
            base = df.canon(tr[3][0], ad)
            fac = sorted(df.canon(x, ad) for x in _factors(tr[3][1]))
            ok = base == "as_core_duration(self.announce_interval)" and \
                fac == sorted(["add(1.0, sample(rng, Open01{}))", "self.announce_receipt_timeout"])
        if ok:
            rep.ok("TMR-6", ad.key, "announce receipt timeout", detail=c, where=ad.loc())
        else:
            rep.violation("TMR-6", ad.key, "announce receipt timeout",
                          "announce_duration is `%s`; IEEE 1588 9.2.6.12: announceReceiptTimeout * announceInterval "
                          "(times a random factor in (1,2))" % c, where=ad.loc())
    except AnchorMissing as e:
        rep.anchor_missing("TMR-6", str(e))


def delay_interval_callers(prog, b, variant):
    """every caller passes the `interval` bound from self.config.delay_mechanism's `variant` arm"""
    okc = 0
    for cb in prog.bodies.values():
        if cb.unit.name != "statime-lib" or cb.is_test():
            continue
        for bi, t, c in mir.iter_calls(cb):
            if (c.get("resolved") or c["key"]) == b.key or c["key"] == b.key:
                pv = df.Prov(cb)
                a = df.canon(pv.op_tree(t["args"][1]), cb)
                cc = cnd.conds(prog, cb)
                lits = [cnd.lit_canon(l, cb) for l in cc.must_literals(bi)]
                if ("as %s" % variant) in a and "config.delay_mechanism" in a and a.endswith("interval"):
                    okc += 1
                elif any(("self.config.delay_mechanism in {%s}" % variant) == l for l in lits) and "interval" in a:
                    okc += 1
                else:
                    return False
    return okc > 0


def check_rearm(rep, prog, b, states, timer, accept_call):
    c = cnd.conds(prog, b)
    g = mir.cfg(b)
    starts = []
    gate_edges = []
    if states is None and accept_call is None:
        starts = [0]
    else:
        for (a, s) in c.branch_edges:
            known = set(cnd.expand_literals(prog, b, set(c.must_literals(a))))
            for l in cnd.expand_literals(prog, b, set(c.switch_literals(a, s))):
                if l in known:
                    continue        # not decided by THIS branch: it already held before it
                if states is not None and l[0] == "variant" and l[3] == "PortState" and set(l[2]) <= states \
                        and df.path_fields(l[1]) == ("port_state",):
                    starts.append(s)
                    gate_edges.append((a, s))
                if accept_call is not None and l[0] == "bool" and l[2] is True:
                    t = df.strip(l[1])
                    if t[0] == "call" and t[2] == accept_call:
                        starts.append(s)
    construct = "re-arm %s" % (timer if isinstance(timer, str) else " or ".join(timer))
    # keep only the innermost gate edges: a gate computed into a bool temporary (matches!) shows up first at the
    # discriminant switch that defines the temporary and again at the switch on the temporary
    if isinstance(starts, list) and starts and starts != [0]:
        cand = []
        for (a, s) in c.branch_edges:
            if s in starts:
                cand.append((a, s))
        keep = []
        for (a, s) in cand:
            later = g.reachable_from(s)
            if not any(a2 in later for (a2, s2) in cand if (a2, s2) != (a, s)):
                keep.append(s)
        starts = keep or starts
    if not starts:
        rep.violation("TMR-2", b.key, construct, "cannot find the active-state gate of %s" % b.name, where=b.loc())
        return
    alts = (timer,) if isinstance(timer, str) else tuple(timer)
    through = {bi for (bi, v, ln) in fsm.action_sites(b) if v in alts}
    timer = " or ".join(alts)
    excl = serialize_err_blocks(prog, b)
    wit = bypass_path(b, starts, through, excl)
    if wit is None:
        rep.ok("TMR-2", b.key, construct, detail={"gate_targets": sorted(set(starts)), "rearm_blocks": sorted(through),
                                                  "serialize_err_blocks_excluded": len(excl)}, where=b.loc())
    else:
        lines = []
        for x in wit:
            if x < len(b.blocks):
                ln = b.blocks[x]["term"]["sp"][1]
                if not lines or lines[-1] != ln:
                    lines.append(ln)
        rep.violation("TMR-2", b.key, construct,
                      "a return path of %s in its active state does not request %s (source lines of the path: %s): "
                      "the periodic sender would stop" % (b.name, timer, lines), where=fc.where(b, lines[-1] if lines else b.line),
                      detail={"path_blocks": wit})
