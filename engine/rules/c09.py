"""C09 — offset and delay measurements use one matching exchange, exactly (MEAS-1..5)."""
from rules import meas_common as mc

LEVEL = "other"
ANCHOR_RULE = "MEAS-4"
EXPLANATION = (
    "Static rules over the MIR of the slave-side handlers (handle_sync, handle_follow_up, handle_delay_resp, "
    "handle_delay_timestamp, send_e2e_delay_request, extract_measurement). Values are followed through "
    "temporaries, references, pattern bindings and unit-preserving conversions to expression trees over "
    "(parameter, field path) leaves; arithmetic is normalised to linear forms. MEAS-1: every timestamp store into "
    "an existing exchange is, on every path, gated by `stored id == id of the message/timestamp` (edge dominance "
    "with bool temporaries expanded). MEAS-2: a newly constructed exchange takes its id from the message or a "
    "fresh sequence number and no field depends on the replaced state. MEAS-3: producing a measurement resets the "
    "consumed exchange on every path. MEAS-4: every store into measurement state and every Measurement field has "
    "exactly the linear form of the IEEE 1588 formula table (engine/spec/formulas.json): operand identity, sign of "
    "each timestamp, correction field and asymmetry. MEAS-5: no value passes through floating point except the "
    "literal divisor."
    ' MEAS-9 (shared with C10 TX-3): the sequence-id generator returns the current value and advances by wrapping_add(1).'
    " MEAS-10 (= C07 NI-6): the parent the handlers filter on follows the BMCA's choice as a full PortIdentity. MEAS-11: the daemon converts the configured delay asymmetry with Duration::from_nanos."
)
NOT_DECIDED = ("numeric exactness of the fixed-point operations to sub-nanosecond (C16 decides the scale clauses); "
               "that the compared ids are the right ones at run time")
ASSUMPTIONS = ["Time::from/Duration::from/into conversions are unit preserving (nanoseconds)"]

E2E_FNS = ["handle_sync", "handle_follow_up", "handle_delay_resp", "handle_delay_timestamp",
           "send_e2e_delay_request", "extract_measurement"]
REL = r"(sync_state|delay_state|last_raw_sync_offset)|^result\.(raw_sync_offset|offset|raw_delay_offset|delay|event_time)$"


def run(ctx):
    rep = ctx.report
    rep.rule("MEAS-1", "timestamp stores into an existing exchange are gated on the sequence-id match on every path", floor=4)
    rep.rule("MEAS-2", "a new exchange never inherits from the replaced state; id from message or fresh generator", floor=4)
    rep.rule("MEAS-3", "a produced measurement resets the consumed exchange state on every path", floor=2)
    rep.rule("MEAS-4", "stores into measurement state / Measurement fields have the IEEE formula's linear form", floor=20)
    rep.rule("MEAS-5", "no floating point on the way into a measurement except the literal divisor", floor=10)
    spec = mc.load_spec(ctx)
    mc.check_id_gates(ctx, "MEAS-1", ["handle_sync", "handle_follow_up", "handle_delay_resp", "handle_delay_timestamp"],
                      "sync_state|delay_state", ["send_time", "recv_time"], None)
    mc.check_no_inherit(ctx, "MEAS-2", ["handle_sync", "handle_follow_up", "send_e2e_delay_request"],
                        "sync_state|delay_state", ("sync_state", "delay_state"))
    mc.check_reset(ctx, "MEAS-3", [("result.raw_sync_offset", "self.port_state.sync_state", ["SyncState::Empty"]),
                                   ("result.raw_delay_offset", "self.port_state.delay_state", ["DelayState::Empty"])])
    mc.check_formulas(ctx, "MEAS-4", E2E_FNS, REL, spec)
    mc.check_no_float(ctx, "MEAS-5", E2E_FNS, REL)
    rep.rule("MEAS-6", "the Time/Duration operators the formulas are built from have their arithmetic meaning on "
                       "every path (shared with C16 OPS-1)", floor=16)
    from rules import timeops
    timeops.check_ops(rep, ctx.prog("default"), "MEAS-6")
    rep.rule("MEAS-7", "every effect of handle_sync / handle_follow_up / handle_delay_resp requires the sender to be the "
                       "selected parent (and the requester to be this port) - shared with C07 NI-2/NI-3", floor=10)
    from rules import c07 as _c07, c16 as _c16
    from sa.effects import effects as _effects
    _c07.check_parent_gates(rep, ctx.prog("default"), _effects(ctx.prog("default")), rid2="MEAS-7", rid3="MEAS-7")
    rep.rule("MEAS-8", "wire timestamps enter the measurement through a conversion that cannot wrap (seconds * 10^9 in >= 80 "
                       "bits), time differences on signed operands - shared with C16 EXACT-1", floor=2)
    _c16.check_exact(rep, ctx.prog("default"), "MEAS-8")
    rep.rule("MEAS-9", "exchanges are told apart by sequence id: the generator behind Delay_Req / Pdelay_Req ids returns "
                       "the current value and advances by wrapping_add(1) (a generator that sticks or skips lets a late "
                       "response pair with a newer request) - shared with C10 TX-3", floor=1)
    from rules import c10 as _c10
    _c10.check_generator(rep, ctx.prog("default"), "MEAS-9")
    rep.rule("MEAS-11", "the configured delay asymmetry (documented in nanoseconds) reaches the library as that many "
                        "nanoseconds (the daemon's configuration conversion)", floor=1)
    _check_asymmetry_unit(rep, ctx.prog("default"))
    rep.rule("MEAS-10", "the parent the measurement handlers filter on is replaced whenever the BMCA selects another "
                        "PortIdentity (full identity, not only the clock) - shared with C07 NI-6", floor=1)
    from rules import share as _share
    _share.share(ctx, rep, "c07", "NI-6", "MEAS-10")



def _check_asymmetry_unit(rep, prog):
    from sa import mir as _mir, dataflow as df
    n = 0
    for b in prog.bodies.values():
        if b.is_test() or not b.unit.name.startswith("statime_linux") and b.unit.name != "statime-bin":
            continue
        pv = None
        for bi, si, st in _mir.iter_stmts(b):
            if st["k"] == "assign" and st["r"]["k"] == "agg" and st["r"].get("name") == "PortConfig" and \
                    "delay_asymmetry" in (st["r"].get("fields") or []) and \
                    str(st["r"].get("path") or "").startswith("statime::") and (b.trait or "").startswith("core::convert"):
                pv = pv or df.Prov(b)
                tr = dict(pv.rvalue_tree(st["r"])[3]).get("delay_asymmetry")
                if tr is None:
                    continue
                txt = df.canon(tr, b)
                if "delay_asymmetry" not in txt:
                    continue
                n += 1
                if txt.startswith("from_nanos("):
                    rep.ok("MEAS-11", b.key, "delay_asymmetry unit", detail=txt, where="%s:%d" % (b.file, st["sp"][1]))
                else:
                    rep.violation("MEAS-11", b.key, "delay_asymmetry unit",
                                  "the configured delay asymmetry is converted with `%s`; the option is documented in "
                                  "nanoseconds, so every offset and delay measurement would be corrected by a wrongly scaled "
                                  "asymmetry" % txt, where="%s:%d" % (b.file, st["sp"][1]))
    if n == 0:
        rep.anchor_missing("MEAS-11", "no PortConfig construction with a configured delay_asymmetry found in the daemon")
