"""C15 — boundary clocks propagate TLVs faithfully and break path-trace loops (TLV-1..8)."""
import re
from sa import mir, hir, dataflow as df, conds as cnd, intervals as iv
from sa.stores import stores
from sa.callgraph import callgraph
from sa.facts import AnchorMissing
from rules import fsm_common as fc

LEVEL = "other"
ANCHOR_RULE = "TLV-1"
EXPLANATION = (
    "TLV-1: PortActionIterator::next constructs ForwardTLV only where announce_propagate(tlv type) holds on every "
    "path, and announce_propagate's accepted set (interval decision table extracted from its MIR) equals IEEE "
    "1588-2019 Table 52: {0x0008, 0x0009, 0x4000..=0x7FFF}. TLV-2: in send_announce every TlvSetBuilder::add is "
    "gated on the room check (margin comparison resp. next_if_smaller(margin) == Some), is paired on the same "
    "path with `tlv_margin -= <wire size of that same TLV>`, and forwarded TLVs additionally require "
    "sender_identity == parentDS.parent_port_identity. TLV-3: the PATH_TRACE TLV is built from clone(pathTraceDS."
    "list) + own clock identity, with type PathTrace; in handle_announce's critical section no data-set store may "
    "lie on a path that reaches the loop-detected return (the looped Announce is discarded before any effect). "
    "TLV-4: the size relation the library asserts on a provided TLV is not stronger than what the provider "
    "contract / the in-workspace provider guarantees (<= max_size). TLV-5: the minimum TLV size accepted by "
    "TlvSet::deserialize, TlvSetIterator::next and Tlv::deserialize equals the minimum TlvSetBuilder can emit. "
    "TLV-6 (HIR): the two daemon port tasks use the TlvForwarder alike (same methods, same guards). TLV-7: "
    "TlvForwarder::next_if_smaller puts a TLV that does not fit back into `peek` (no loss), and returns it only "
    "under size <= max_size. TLV-8: forwarded PATH_TRACE TLVs are skipped when the instance appends its own."
    ' TLV-10: a TLV taken from the provider is appended without a further strict size test (no loss at exact fit). TLV-11: decision M1/M2 clears pathTraceDS.list unconditionally.'
    ' TLV-12 (= C10 TX-12): ForwardedTLV::size() is the wire size. TLV-13: the forwarder tells a Lagged receive error from Empty/Closed and retries.'
)
NOT_DECIDED = ("arrival-order / at-most-once delivery across ports (queue semantics of the broadcast channel), "
               "head-of-line blocking by an oversized TLV (F20, observed, outside the rules)")
SPEC_PROPAGATE = [(0x0008, 0x0009), (0x4000, 0x7FFF)]


def check_loop_scan(rep, prog, cb, loop_blocks):
    """TLV-3c: the loop-detected exit is decided by scanning the WHOLE value of the received PATH_TRACE TLV: the
    deciding literal is any(<ChunksExact over tlv.value, chunk 8>, |ci| ci == own clock identity) - the iterator's
    type shows there is no take/skip adaptor, its source is the TLV's value field itself (not a sub-slice)."""
    c = cnd.conds(prog, cb)
    d = df.defs(cb)
    for bi in loop_blocks:
        ok, seen = False, []
        # the explicit loop spelling: `for ci in tlv.value.chunks_exact(8) { if ci == own_id { return true } }` - the exit
        # is taken when an item of a (non-truncated) ChunksExact iterator equals the own identity
        for l in c.must_literals(bi):
            if l[0] == "cmp" and l[1] == "eq":
                for (x, y) in ((l[2], l[3]), (l[3], l[2])):
                    x0 = df.strip(x)
                    while x0[0] == "field":
                        x0 = df.strip(x0[1])
                    if x0[0] == "call" and x0[2] == "next" and "<ChunksExact as " in x0[1] and \
                            "default_ds.clock_identity" in df.canon(y, cb):
                        srcs = []
                        for bj, tj, cj in mir.iter_calls(cb, name="chunks_exact"):
                            srcs.append((df.canon(c.prov.op_tree(tj["args"][0]), cb), df.canon(c.prov.op_tree(tj["args"][1]), cb)))
                        if srcs and all(re.search(r"\.value\)*$", b_) and w_ == "8" and
                                        not any(z in b_ for z in ("index", "Range", "split", "get(")) for (b_, w_) in srcs):
                            ok = True
                            rep.ok("TLV-3", cb.key, "loop check scans the whole received path",
                                   detail={"form": "for-loop over chunks_exact(.., 8)", "sources": srcs}, where=cb.loc())
        if ok:
            continue
        for l in c.must_literals(bi):
            if l[0] != "bool" or l[2] is not True:
                continue
            t = df.strip(l[1])
            seen.append(cnd.lit_canon(l, cb))
            if t[0] == "call" and t[2] in ("map_or", "is_some_and") and len(t[3]) >= 2:
                # `tlv_opt.map_or(false, |tlv| tlv.value.chunks_exact(8).any(..))`: look into the closure
                clo = df.strip(t[3][-1])
                dflt_ok = t[2] == "is_some_and" or df.strip(t[3][1]) == ("const", False)
                if dflt_ok and clo[0] == "agg" and str(clo[1]).startswith("closure:"):
                    inner = [x for x in cb.unit.bodies.values() if x.is_closure and (x.j.get("key") == clo[1][8:] or x.key == clo[1][8:])]
                    if inner:
                        ib = inner[0]
                        ipv = df.Prov(ib, captures=dict(clo[3]))
                        idefs = df.defs(ib)
                        for bi2, t2, c2 in mir.iter_calls(ib, name="any"):
                            if "<ChunksExact as " not in df.strip(ipv.call_tree(t2))[1] or t2["dest"]["l"] != 0:
                                continue
                            it2 = mir.op_place(t2["args"][0])
                            src2 = None
                            if it2 is not None:
                                l2 = it2["l"]
                                # &mut temp -> the iterator local -> its defining chunks_exact call
                                for _ in range(3):
                                    ds2 = idefs.whole.get(l2, [])
                                    if len(ds2) == 1 and ds2[0][2][0] == "assign" and ds2[0][2][1]["k"] == "ref":
                                        l2 = ds2[0][2][1]["p"]["l"]
                                        continue
                                    break
                                ds2 = idefs.whole.get(l2, [])
                                if len(ds2) == 1 and ds2[0][2][0] == "call":
                                    src2 = df.strip(ipv.call_tree(ds2[0][2][1]))
                            if src2 is None or src2[0] != "call" or src2[2] != "chunks_exact":
                                continue
                            base2, width2 = df.canon(src2[3][0], ib), df.canon(src2[3][1], ib)
                            caps2 = df.canon(ipv.op_tree(t2["args"][1]), ib)
                            if re.search(r"\.value\)*$", base2) and not any(x in base2 for x in ("index", "Range", "split", "get(")) \
                                    and width2 == "8" and "clock_identity" in caps2:
                                ok = True
                                rep.ok("TLV-3", cb.key, "loop check scans the whole received path",
                                       detail={"iterator": "chunks_exact(%s, 8)" % base2, "via": t[2]}, where=cb.loc())
                continue
            if t[0] != "call" or t[2] != "any" or "<ChunksExact as " not in t[1] or len(t[3]) != 2:
                continue
            it = df.strip(t[3][0])
            src = None
            if it[0] == "path" and it[1][0] == "local" and not it[2]:
                ds = d.whole.get(it[1][1], [])
                if len(ds) == 1 and ds[0][2][0] == "call":
                    src = df.strip(c.prov.call_tree(ds[0][2][1]))
            elif it[0] == "call":
                src = it
            if src is None or src[0] != "call" or src[2] != "chunks_exact" or len(src[3]) != 2:
                continue
            base = df.canon(src[3][0], cb)
            width = df.canon(src[3][1], cb)
            clo = df.strip(t[3][1])
            caps = " ".join(df.canon(x, cb) for _, x in clo[3]) if clo[0] == "agg" else ""
            whole_value = re.search(r"\.value\)*$", base) is not None and not any(x in base for x in ("index", "Range", "split", "get("))
            if whole_value and width == "8" and "default_ds.clock_identity" in caps:
                ok = True
                rep.ok("TLV-3", cb.key, "loop check scans the whole received path",
                       detail={"iterator": "chunks_exact(%s, 8)" % base, "compared_with": caps}, where=cb.loc())
        if not ok:
            rep.violation("TLV-3", cb.key, "loop check scans the whole received path",
                          "the loop-detected exit is decided by %s: cannot show that every 8-byte entry of the received "
                          "PATH_TRACE value is compared with the own clock identity (a truncated scan lets a loop "
                          "through when the own identity sits beyond the cut)" % seen, where=cb.loc())


def run(ctx):
    rep = ctx.report
    prog = ctx.prog("default")
    cg = callgraph(prog)
    rep.rule("TLV-1", "ForwardTLV only under announce_propagate(); accepted types = IEEE Table 52", floor=2)
    rep.rule("TLV-2", "every TLV append is gated on room + sender and paired with the margin decrement", floor=2)
    rep.rule("TLV-12", "the size a forwarded TLV is accounted with is its wire size - shared with C10 TX-12", floor=1)
    from rules import c10 as _c10
    _c10.check_forwarded_size(rep, prog, "TLV-12")
    rep.rule("TLV-10", "a TLV taken from the provider (next_if_smaller == Some: removed from the queue, size <= room) is "
                       "appended without a further size test (no loss at exact fit)", floor=1)
    rep.rule("TLV-3", "own path trace = received path + own identity; a looped Announce (own identity anywhere in the received path) has no effect", floor=3)
    rep.rule("TLV-4", "library assertion on provided TLVs is not stronger than the provider contract", floor=1)
    rep.rule("TLV-5", "minimum TLV element size agrees between builder and parsers", floor=1)
    rep.rule("TLV-6", "both daemon port tasks use the TLV forwarder alike and empty it only when the port is not master", floor=3)
    rep.rule("TLV-7", "the forwarder never loses a TLV that does not fit yet", floor=1)
    rep.rule("TLV-8", "forwarded PATH_TRACE is skipped when the own one is appended", floor=1)
    rep.rule("TLV-9", "ForwardTLV actions are produced only for Announces that passed the acceptance gate", floor=1)
    fc.check_forward_gate(rep, prog, "TLV-9")

    # ---------------- TLV-1
    try:
        nx = [b for b in prog.find(name="next", self_name="PortActionIterator", crate="statime-lib")]
        clos = []
        for b in nx:
            clos += prog.closures_of(b)
        found = False
        for b in nx + clos:
            c = cnd.conds(prog, b)
            for bi, si, s in mir.iter_stmts(b):
                if s["k"] == "assign" and s["r"]["k"] == "agg" and s["r"].get("name") == "PortAction" and s["r"]["variant"] == "ForwardTLV":
                    found = True
                    lits = c.must_literals(bi)
                    ok = any(l[0] == "bool" and l[2] is True and df.strip(l[1])[0] == "call" and
                             df.strip(l[1])[2] == "announce_propagate" for l in lits)
                    if not ok and b.is_closure:
                        # `tlvs.find(|t| t.tlv_type.announce_propagate()).map(|tlv| ForwardTLV{..})`: the element reaching
                        # this closure passed the find predicate
                        par, pbb = fc.closure_site(prog, b)
                        if par is not None:
                            ppv = df.Prov(par)
                            for bj, tj, cj in mir.iter_calls(par, name="map"):
                                clo_ = df.strip(ppv.op_tree(tj["args"][1])) if len(tj["args"]) > 1 else ("?",)
                                if clo_[0] != "agg" or not str(clo_[1]).endswith(b.j.get("key", b.key)):
                                    continue
                                src_ = df.strip(ppv.op_tree(tj["args"][0]))
                                if src_[0] == "call" and src_[2] == "find" and len(src_[3]) == 2:
                                    pc = df.strip(src_[3][1])
                                    if pc[0] == "agg" and str(pc[1]).startswith("closure:"):
                                        pb = [x for x in par.unit.bodies.values() if x.is_closure and
                                              (x.j.get("key") == pc[1][8:] or x.key == pc[1][8:])]
                                        if pb:
                                            rl = cnd.returns_literals(prog, pb[0], True)
                                            ok = any(l[0] == "bool" and l[2] is True and df.strip(l[1])[0] == "call" and
                                                     df.strip(l[1])[2] == "announce_propagate" for l in rl)
                    if ok:
                        rep.ok("TLV-1", b.key, "ForwardTLV under announce_propagate", where=fc.where(b, s["sp"][1]))
                    else:
                        rep.violation("TLV-1", b.key, "ForwardTLV under announce_propagate",
                                      "ForwardTLV is produced for TLVs whose type is not checked with announce_propagate(): %s" %
                                      sorted(cnd.lit_str(l) for l in lits), where=fc.where(b, s["sp"][1]))
        if not found:
            rep.violation("TLV-1", "<anchor>", "ForwardTLV", "no ForwardTLV construction found in PortActionIterator::next")
        ap = prog.one(name="announce_propagate", self_name="TlvType", crate="statime-lib")
        table, npaths = iv.decision_table(ap, lambda t: t[0] == "call" and t[2] == "to_primitive", 0, 0xFFFF)
        got = table.get("True", [])
        if got == SPEC_PROPAGATE:
            rep.ok("TLV-1", ap.key, "propagating types = Table 52", detail=iv.fmt(got), where=ap.loc())
        else:
            rep.violation("TLV-1", ap.key, "propagating types = Table 52",
                          "announce_propagate accepts %s, IEEE 1588-2019 Table 52 prescribes %s" % (
                              iv.fmt(got), iv.fmt(SPEC_PROPAGATE)), where=ap.loc())
    except AnchorMissing as e:
        rep.anchor_missing("TLV-1", str(e))

    # ---------------- TLV-2 / TLV-3a / TLV-4 / TLV-8
    try:
        sa_ = prog.one(name="send_announce", self_name="Port", crate="statime-lib")
        bodies = [sa_] + prog.closures_of(sa_)
        n_add = 0
        for b in bodies:
            c = cnd.conds(prog, b)
            pv = c.prov
            d = df.defs(b)
            for bi, t, cal in mir.iter_calls(b, name="add"):
                if "TlvSetBuilder" not in cal["key"]:
                    continue
                n_add += 1
                lits = c.must_literals(bi)
                tlv_tree = pv.op_tree(t["args"][1])
                tlv_s = df.canon(tlv_tree, b)
                where = fc.where(b, t["sp"][1])
                is_pt = "TlvType::PathTrace" in tlv_s
                # room gate
                room = False
                for l in lits:
                    if l[0] == "cmp" and l[1] in ("gt", "ge") and "tlv_margin" in df.canon(l[2], b) and "wire_size" in df.canon(l[3], b):
                        room = True
                    if l[0] == "variant" and l[2] == frozenset(["Some"]) and df.strip(l[1])[0] == "call" and \
                            df.strip(l[1])[2] == "next_if_smaller":
                        room = True
                # margin decrement paired: a subtraction from tlv_margin by the size of this TLV under the same conditions
                paired = False
                dec_descr = []
                for (lhs_kind, blk, tree) in margin_updates(b, pv, d):
                    s_ = df.canon(tree, b)
                    dec_descr.append(s_)
                    m = c.must_literals(blk)
                    same_region = (m == lits) or (m <= lits and lits <= m)
                    if not same_region:
                        continue
                    if is_pt and ("wire_size(" in s_ and "PathTrace" in s_):
                        paired = True
                    if not is_pt and ("size(" in s_):
                        # size of the same forwarded TLV object
                        base_tlv = tlv_s.rsplit(".tlv", 1)[0]
                        if base_tlv and base_tlv in s_:
                            paired = True
                problems = []
                if not room:
                    problems.append("not gated on the remaining room")
                if not paired:
                    problems.append("no `tlv_margin -= <wire size of this TLV>` on the same path (margin updates seen: %s)" % dec_descr)
                if not is_pt:
                    snd = False
                    for l in lits:
                        if l[0] == "cmp" and l[1] == "eq":
                            for a, b_ in ((l[2], l[3]), (l[3], l[2])):
                                if "sender_identity" in df.canon(a, b) and df.strip(b_)[0] == "call" and df.strip(b_)[2] == "with_ref":
                                    clo = df.strip(df.strip(b_)[3][1])
                                    if clo[0] == "agg" and clo[1].startswith("closure:"):
                                        cb = cg.lookup(b.unit, clo[1][len("closure:"):])
                                        if cb is not None:
                                            rt, _ = fc.closure_return_tree(prog, cb)
                                            nf = df.named_fields(rt) or ()
                                            if nf[-2:] == ("parent_ds", "parent_port_identity"):
                                                snd = True
                    if not snd:
                        problems.append("forwarded TLV is not checked against parentDS.parent_port_identity")
                construct = "add(%s)" % ("PATH_TRACE" if is_pt else "forwarded")
                if not is_pt:
                    # TLV-10: next_if_smaller has already REMOVED this TLV from the queue (and guarantees size <= room):
                    # a further size test on the way to add() can only lose it
                    extra = []
                    flip = {"lt": "gt", "gt": "lt", "le": "ge", "ge": "le"}
                    for l in lits:
                        if l[0] != "cmp" or l[1] not in flip:
                            continue
                        a_, b2_ = df.canon(l[2], b), df.canon(l[3], b)
                        rel = None
                        if "size(" in a_ and "margin" in b2_ and "size(" not in b2_:
                            rel = l[1]
                        elif "size(" in b2_ and "margin" in a_ and "size(" not in a_:
                            rel = flip[l[1]]
                        # `size <= margin` is the provider's own contract (TLV-4 checks the assertion of it)
                        if rel is not None and rel != "le":
                            extra.append(cnd.lit_str(l))
                    if extra:
                        rep.violation("TLV-10", b.key, "forwarded TLV taken from the provider is appended",
                                      "a TLV that next_if_smaller already handed out (and removed from the queue) is appended "
                                      "only under a further size test %s: a TLV whose size equals the remaining room is "
                                      "dropped instead of forwarded" % extra, where=where)
                    else:
                        rep.ok("TLV-10", b.key, "forwarded TLV taken from the provider is appended", where=where)
                if problems:
                    rep.violation("TLV-2", b.key, construct, "; ".join(problems), where=where)
                else:
                    rep.ok("TLV-2", b.key, construct, where=where)
                # TLV-3a
                if is_pt:
                    calls = {cal2["name"]: df.canon(pv.call_tree(t2), b) for _, t2, cal2 in mir.iter_calls(b)}
                    ok3 = "clone(state.path_trace_ds.list)" in calls.get("clone", "") and \
                        calls.get("try_push", "").endswith("state.default_ds.clock_identity)")
                    if ok3:
                        rep.ok("TLV-3", b.key, "own path = received path + own identity", where=where)
                    else:
                        rep.violation("TLV-3", b.key, "own path = received path + own identity",
                                      "PATH_TRACE TLV is not built from pathTraceDS.list followed by the own clock identity "
                                      "(clone: %s, try_push: %s)" % (calls.get("clone"), calls.get("try_push")), where=where)
        if n_add < 2:
            rep.violation("TLV-2", sa_.key, "add sites", "expected 2 TlvSetBuilder::add sites in send_announce, found %d" % n_add,
                          where=sa_.loc())
        # TLV-4: the assertion on the provided TLV
        c = cnd.conds(prog, sa_)
        lib_op = None
        for bi, t, cal in mir.iter_calls(sa_, name="size"):
            # the literal established right after the size() comparison on the non-panicking path
            pass
        for bi in range(len(sa_.blocks)):
            for l in c.must_literals(bi):
                if l[0] == "cmp" and l[1] in ("lt", "le") and df.strip(l[2])[0] == "call" and df.strip(l[2])[2] == "size" \
                        and "tlv_margin" in df.canon(l[3], sa_) + str(l[3]):
                    lib_op = l[1]
                if l[0] == "cmp" and l[1] in ("gt", "ge") and df.strip(l[3])[0] == "call" and df.strip(l[3])[2] == "size":
                    lib_op = {"gt": "lt", "ge": "le"}[l[1]]
        prov_ops = provider_guarantee(prog)
        if lib_op is None:
            rep.ok("TLV-4", sa_.key, "no size assertion on provided TLVs", where=sa_.loc(), nontrivial=False)
        elif lib_op == "le" or (prov_ops and all(o == "lt" for o in prov_ops)):
            rep.ok("TLV-4", sa_.key, "size %s margin" % lib_op, detail={"providers": prov_ops}, where=sa_.loc())
        else:
            rep.violation("TLV-4", sa_.key, "size %s margin" % lib_op,
                          "send_announce requires size < margin of a provided TLV, but ForwardedTLVProvider::next_if_smaller is "
                          "documented (and implemented by the daemon: %s) to return TLVs with size <= max_size: a TLV exactly "
                          "filling the room aborts the Announce" % prov_ops, where=sa_.loc())
        # TLV-8
        ok8 = False
        for bi, t, cal in mir.iter_calls(sa_, name="eq"):
            s_ = df.canon(c.prov.call_tree(t), sa_)
            if "tlv_type" in s_ and "PathTrace" in s_:
                ok8 = True
        # ... and the switch that enables the skip is the path-trace OPTION itself (not "our TLV happened to fit"):
        # the bool-returning with_ref closure of send_announce returns state.path_trace_ds.enable on every path
        flag_ok = False
        flag_rows = []
        for cb_ in prog.closures_of(sa_, recursive=False):
            if cb_.local_ty(0)["s"] == "bool":
                flag_rows = cnd.result_rows(prog, cb_)
                flag_ok = bool(flag_rows) and all(r_.endswith("path_trace_ds.enable") for (r_, w_) in flag_rows)
        if ok8 and not flag_ok:
            rep.violation("TLV-8", sa_.key, "forwarded PATH_TRACE skipped",
                          "the flag that makes send_announce skip a forwarded PATH_TRACE TLV is %s, not the path-trace option "
                          "(pathTraceDS.enable): when the own TLV does not fit, the parent's PATH_TRACE is forwarded verbatim, "
                          "i.e. a path without the instance's own identity is emitted" % ([r_ for (r_, w_) in flag_rows] or "not found"),
                          where=sa_.loc())
        elif ok8:
            rep.ok("TLV-8", sa_.key, "forwarded PATH_TRACE skipped", where=sa_.loc())
        else:
            rep.violation("TLV-8", sa_.key, "forwarded PATH_TRACE skipped",
                          "forwarded PATH_TRACE TLVs are not filtered when the instance appends its own", where=sa_.loc())
    except AnchorMissing as e:
        rep.anchor_missing("TLV-2", str(e))

    # ---------------- TLV-11 the path restarts when the instance becomes grandmaster
    rep.rule("TLV-11", "decision M1/M2 (the instance is its own grandmaster) clears pathTraceDS.list unconditionally: the "
                       "path of a grandmaster starts with itself", floor=1)
    try:
        sr = prog.one(name="set_recommended_state", self_name="Port", crate="statime-lib")
        c_ = cnd.conds(prog, sr)
        n11 = 0
        for bi, t, cal in mir.iter_calls(sr, name="clear"):
            if "path_trace_ds" not in df.canon(c_.prov.op_tree(t["args"][0]), sr):
                continue
            n11 += 1
            lits = cnd.expand_literals(prog, sr, set(c_.must_literals(bi)))
            dec = [l for l in lits if l[0] == "variant" and l[3] == "RecommendedState"]
            other = [l for l in lits if l not in dec and not (l[0] == "variant" and df.strip(l[1])[0] == "call")]
            if dec and all(set(l[2]) <= {"M1", "M2"} for l in dec) and not other:
                rep.ok("TLV-11", sr.key, "M1/M2 clears the path", where=fc.where(sr, t["sp"][1]))
            else:
                rep.violation("TLV-11", sr.key, "M1/M2 clears the path",
                              "pathTraceDS.list is cleared only under %s: an instance that becomes grandmaster keeps the path "
                              "of its former parent and announces [old grandmaster, .., own] - upstream clocks see their own "
                              "identity and discard the Announces as loops" % sorted(cnd.lit_str(l) for l in lits),
                              where=fc.where(sr, t["sp"][1]))
        if n11 == 0:
            rep.violation("TLV-11", sr.key, "M1/M2 clears the path", "set_recommended_state never clears pathTraceDS.list",
                          where=sr.loc())
    except AnchorMissing as e:
        rep.anchor_missing("TLV-11", str(e))

    # ---------------- TLV-3b loop check precedes every effect
    try:
        ha = prog.one(name="handle_announce", self_name="Port", crate="statime-lib")
        done = False
        for cb in prog.closures_of(ha, recursive=False):
            sts, pv = stores(cb, include_locals=False)
            ds = [s for s in sts if not s["macro"] and s["lhs"].startswith("state.")]
            if not ds:
                continue
            done = True
            g = mir.cfg(cb)
            # blocks that return `true` (loop detected)
            loop_blocks = []
            for bi, si, s in mir.iter_stmts(cb):
                if s["k"] == "assign" and s["p"]["l"] == 0 and not s["p"]["proj"] and s["r"]["k"] == "use" and \
                        mir.op_const(s["r"]["op"]) is True:
                    loop_blocks.append(bi)
            if not loop_blocks:
                rep.violation("TLV-3", cb.key, "loop check", "the parent-Announce critical section has no loop-detected exit",
                              where=cb.loc())
                continue
            check_loop_scan(rep, prog, cb, loop_blocks)
            anc = set()
            st = list(loop_blocks)
            while st:
                x = st.pop()
                if x in anc:
                    continue
                anc.add(x)
                st.extend(g.pred[x])
            early = [s for s in ds if s["bb"] in anc]
            if early:
                rep.violation("TLV-3", cb.key, "loop check precedes effects",
                              "an Announce whose PATH_TRACE contains the own identity is 'discarded' only after these data-set "
                              "writes already happened: %s" % ["%s@L%d" % (s["lhs"], s["line"]) for s in early],
                              where=fc.where(cb, early[0]["line"]))
            else:
                rep.ok("TLV-3", cb.key, "loop check precedes effects", where=cb.loc())
        if not done:
            rep.violation("TLV-3", ha.key, "loop check", "cannot find the parent-Announce critical section", where=ha.loc())
    except AnchorMissing as e:
        rep.anchor_missing("TLV-3", str(e))

    # ---------------- TLV-5
    try:
        mins = {}
        td = prog.one(name="deserialize", self_name="TlvSet", crate="statime-lib")
        mins["TlvSet::deserialize loop"] = min_len_literal(prog, td, want_loop=True)
        it = prog.one(name="next", self_name="TlvSetIterator", crate="statime-lib")
        mins["TlvSetIterator::next"] = min_len_iter(prog, it)
        tl = prog.one(name="deserialize", self_name="Tlv", crate="statime-lib")
        mins["Tlv::deserialize"] = min_len_ok(prog, tl)
        ws = prog.one(name="wire_size", self_name="Tlv", crate="statime-lib")
        form = df.lin(df.Prov(ws).local_tree(0), ws)
        mins["TlvSetBuilder emits"] = int(form.get("1", 0))
        vals = set(mins.values())
        if len(vals) == 1 and None not in vals:
            rep.ok("TLV-5", td.key, "minimum TLV size", detail=mins, where=td.loc())
        else:
            rep.violation("TLV-5", td.key, "minimum TLV size",
                          "builder and parsers disagree on the smallest TLV: %s — the library can emit a suffix (a TLV with an "
                          "empty value in last position) that its own parser rejects" % mins, where=td.loc())
    except AnchorMissing as e:
        rep.anchor_missing("TLV-5", str(e))

    # ---------------- TLV-6 (HIR)
    tasks = {}
    for key, (u, h) in prog.hir.items():
        if u.name == "statime-bin" and key.split("::")[-1] in ("port_task", "ethernet_port_task"):
            body = hir.simplify(hir.fn_body(h))
            uses = []
            for x in hir.walk(body):
                if x.get("k") == "mcall" and "TlvForwarder" in (x.get("recv_ty") or "") and "tlvforwarder" in (x.get("callee") or ""):
                    uses.append(x["name"])
                if x.get("k") == "call":
                    for a in x.get("args", []):
                        pass
            tasks[key.split("::")[-1]] = sorted(set(uses))
            # polarity: the queue may be emptied only where the port is known NOT to be master (a master port still
            # has to forward what is queued)

            def rec(n, conds_):
                for ch in hir.children(n):
                    if not isinstance(ch, dict):
                        continue
                    if ch.get("k") == "if":
                        rec(ch["cond"], conds_)
                        rec(ch["then"], conds_ + [(ch["cond"], True)])
                        if ch.get("else") is not None:
                            rec(ch["else"], conds_ + [(ch["cond"], False)])
                        continue
                    if ch.get("k") == "mcall" and ch.get("name") == "empty" and "TlvForwarder" in (ch.get("recv_ty") or ""):
                        okp = False
                        for (cnd_, pol) in conds_:
                            e = hir.strip_wrappers(cnd_)
                            neg = False
                            while e.get("k") == "unary" and e.get("op") in ("!", "Not"):
                                neg = not neg
                                e = hir.strip_wrappers(e["e"])
                            if e.get("k") == "mcall" and e.get("name") == "is_master" and (neg == pol):
                                okp = True
                        if okp:
                            rep.ok("TLV-6", key, "forwarder emptied only when not master", where=hir.where(ch))
                        else:
                            rep.violation("TLV-6", key, "forwarder emptied only when not master",
                                          "the TLV forwarder is emptied where the port may be master: TLVs queued for this "
                                          "port's next Announce are dropped", where=hir.where(ch))
                    rec(ch, conds_)
            rec(body, [])
    if len(tasks) == 2:
        a, b_ = tasks["port_task"], tasks["ethernet_port_task"]
        if a == b_:
            rep.ok("TLV-6", "statime::port_task|ethernet_port_task", "forwarder methods agree", detail=tasks)
        else:
            rep.violation("TLV-6", "statime::port_task|ethernet_port_task", "forwarder methods agree",
                          "the two port tasks treat the shared TLV forwarder differently: %s" % tasks,
                          where="statime-linux/src/main.rs")
    else:
        rep.violation("TLV-6", "<anchor>", "port tasks", "port_task / ethernet_port_task not found: %s" % list(tasks))

    # ---------------- TLV-13: a lagging receiver retries
    rep.rule("TLV-13", "the forwarder's receive step distinguishes a LAGGED queue (older TLVs were overwritten, newer ones ARE "
                       "available) from an empty one and retries: after an overflow the next Announce still carries the TLVs "
                       "that are queued", floor=1)
    try:
        nis = [b for b in prog.find(name="next_if_smaller", self_name="TlvForwarder")]
        if not nis:
            raise AnchorMissing("TlvForwarder::next_if_smaller")
        b = nis[0]
        c = cnd.conds(prog, b)
        g = mir.cfg(b)
        recv = [bi for bi, t, cal in mir.iter_calls(b, name="try_recv")]
        retried = False
        groups = {}
        for bi in range(len(b.blocks)):
            for l in c.must_literals(bi):
                # the error value of try_recv is told apart (by variant name when the enum is known, by discriminant when
                # it is an external type): one group of kinds leads back to try_recv, the other gives up
                if l[0] in ("variant", "int") and "try_recv(" in df.tree_str(l[1]) and "Err" in df.tree_str(l[1]) and \
                        df.strip(l[1])[0] != "call":
                    back = any(r in g.reachable_from(bi) for r in recv)
                    groups.setdefault(repr(l[2]), set()).add(back)
        retried = len(groups) >= 2 and any(True in v for v in groups.values()) and any(v == {False} for v in groups.values())
        if recv and retried:
            rep.ok("TLV-13", b.key, "Lagged is retried", where=b.loc())
        elif not recv:
            rep.anchor_missing("TLV-13", "no try_recv in TlvForwarder::next_if_smaller")
        else:
            rep.violation("TLV-13", b.key, "Lagged is retried",
                          "after try_recv() reports Lagged the forwarder does not receive again (the error kinds are not told "
                          "apart / no path leads back to try_recv): a port that fell behind sends its next Announce without the "
                          "TLVs that are waiting in the queue", where=b.loc())
    except AnchorMissing as e:
        rep.anchor_missing("TLV-13", str(e))

    # ---------------- TLV-7
    try:
        nis = [b for b in prog.find(name="next_if_smaller", self_name="TlvForwarder")]
        if not nis:
            raise AnchorMissing("TlvForwarder::next_if_smaller")
        b = nis[0]
        c = cnd.conds(prog, b)
        sts, pv = stores(b, include_locals=False)
        put_back = False
        for s in sts:
            if s["lhs"] == "self.peek" and "Some(" in df.canon(s["tree"], b):
                lits = c.must_literals(s["bb"])
                if any(l[0] == "cmp" and l[1] == "gt" and df.strip(l[2])[0] == "call" and df.strip(l[2])[2] == "size" for l in lits):
                    put_back = True
        def fits(lits):
            return any(l[0] == "cmp" and l[1] in ("le", "lt") and df.strip(l[2])[0] == "call" and df.strip(l[2])[2] == "size"
                       and "max_size" in df.canon(l[3], b) for l in lits)
        # the other spelling: the peeked TLV is only ever taken out where it is known to fit
        takes = [(bi, t) for bi, t, cal in mir.iter_calls(b, name="take")
                 if (df.named_fields(pv.op_tree(t["args"][0])) or ("",))[-1] == "peek"]
        guarded_take = bool(takes) and all(fits(c.must_literals(bi)) for (bi, t) in takes)
        if guarded_take:
            put_back = True
        ret_ok = False
        for (bi, t) in takes:
            # the value returned is the taken TLV itself (`self.peek.take()` as the result) under the size check
            if guarded_take and not t["dest"]["proj"] and "take(" in df.canon(pv.local_tree(0), b):
                ret_ok = True
        for bi, si, s in mir.iter_stmts(b):
            if s["k"] == "assign" and s["p"]["l"] == 0 and s["r"]["k"] == "agg" and s["r"].get("variant") == "Some":
                lits = c.must_literals(bi)
                if any(l[0] == "cmp" and l[1] in ("le", "lt") and df.strip(l[2])[0] == "call" and df.strip(l[2])[2] == "size"
                       and "max_size" in df.canon(l[3], b) for l in lits):
                    ret_ok = True
        if put_back and ret_ok:
            rep.ok("TLV-7", b.key, "oversize TLV is put back", where=b.loc())
        else:
            rep.violation("TLV-7", b.key, "oversize TLV is put back",
                          "a TLV that does not fit the remaining room is %s" % (
                              "dropped instead of being kept for the next Announce" if not put_back else
                              "returned without the size <= max_size check"), where=b.loc())
    except AnchorMissing as e:
        rep.anchor_missing("TLV-7", str(e))


def margin_updates(b, pv, d):
    """definitions that subtract from tlv_margin: (kind, block, subtrahend tree)"""
    out = []
    # local variable tlv_margin
    for l, ds in d.whole.items():
        if b.local_name(l) != "tlv_margin":
            continue
        for (bi, si, dd) in ds:
            if dd[0] == "assign":
                t = pv.rvalue_tree(dd[1])
                sub = find_sub(t)
                if sub is not None and "tlv_margin" in df.canon(sub[0], b) + str(sub[0]) or (sub is not None and df.strip(sub[0]) == ("path", ("local", l), ())):
                    out.append(("local", bi, sub[1]))
    sts, _ = stores(b, include_locals=False)
    for s in sts:
        if "tlv_margin" in s["lhs"]:
            sub = find_sub(s["tree"])
            if sub is not None:
                out.append(("capture", s["bb"], sub[1]))
    return out


def find_sub(t):
    t = df.strip(t)
    if t[0] == "bin" and t[1] in ("Sub", "SubWithOverflow", "SubUnchecked"):
        return (t[2], t[3])
    if t[0] == "field" and t[2] == "0":
        return find_sub(t[1])
    if t[0] == "call" and t[2] == "sub" and len(t[3]) == 2:
        return (t[3][0], t[3][1])
    return None


def provider_guarantee(prog):
    ops = []
    for b in prog.bodies.values():
        if b.name == "next_if_smaller" and not b.is_closure and not b.is_test() and b.trait and b.trait.endswith("ForwardedTLVProvider"):
            c = cnd.conds(prog, b)
            for bi, si, s in mir.iter_stmts(b):
                if s["k"] == "assign" and s["p"]["l"] == 0 and s["r"]["k"] == "agg" and s["r"].get("variant") == "Some":
                    for l in c.must_literals(bi):
                        if l[0] == "cmp" and l[1] in ("le", "lt") and df.strip(l[2])[0] == "call" and df.strip(l[2])[2] == "size":
                            ops.append(l[1])
    return ops


def len_cmp(l):
    """literal `len(buffer) op K` -> (op, K)"""
    if l[0] == "cmp":
        a, b = df.strip(l[2]), df.strip(l[3])
        if b[0] == "const" and isinstance(b[1], int) and (("len" in df.tree_str(a)) or a[0] == "un" and a[1] == "PtrMetadata"):
            return (l[1], b[1])
    return None


def min_len_literal(prog, body, want_loop):
    """smallest buffer length with which the TLV loop body is entered"""
    c = cnd.conds(prog, body)
    best = None
    for bi in range(len(body.blocks)):
        for l in c.must_literals(bi):
            lc = len_cmp(l)
            if lc and lc[0] in ("gt", "ge"):
                v = lc[1] + 1 if lc[0] == "gt" else lc[1]
                best = v if best is None else min(best, v)
    return best


def min_len_iter(prog, body):
    """TlvSetIterator::next returns None for len <= K: smallest length that yields a TLV = K+1"""
    c = cnd.conds(prog, body)
    for bi, si, s in mir.iter_stmts(body):
        if s["k"] == "assign" and s["p"]["l"] == 0 and s["r"]["k"] == "agg" and s["r"].get("variant") == "Some":
            for l in c.must_literals(bi):
                lc = len_cmp(l)
                if lc and lc[0] in ("gt", "ge"):
                    return lc[1] + 1 if lc[0] == "gt" else lc[1]
    return None


def min_len_ok(prog, body):
    c = cnd.conds(prog, body)
    best = None
    for bi, si, s in mir.iter_stmts(body):
        if s["k"] == "assign" and s["p"]["l"] == 0 and s["r"]["k"] == "agg" and s["r"].get("variant") == "Ok":
            for l in c.must_literals(bi):
                lc = len_cmp(l)
                if lc and lc[0] in ("gt", "ge"):
                    v = lc[1] + 1 if lc[0] == "gt" else lc[1]
                    best = v if best is None else max(best, v)
    return best
