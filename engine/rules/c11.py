"""C11 — Announces advertise the instance's current view of the hierarchy (ANN-1..5)."""
import json, os, re
from sa import mir, dataflow as df, conds as cnd
from sa.stores import stores, flatten
from sa.inline import inline_tree
from sa.callgraph import callgraph
from sa.facts import AnchorMissing
from rules import fsm_common as fc

LEVEL = "other"
ANCHOR_RULE = "ANN-1"
EXPLANATION = (
    "Field-to-field wiring tables extracted from MIR (values followed through temporaries, struct-update syntax "
    "and references to expression trees over parameter/field leaves) and compared with "
    "engine/spec/announce_wiring.json, written from IEEE 1588-2019 13.5 and Tables 30/33. ANN-1: every Announce "
    "header flag and body field built by Message::announce comes from the prescribed timePropertiesDS / parentDS / "
    "currentDS field (listed total derivations: == Variant, is_some, unwrap_or_default), identity/domain/sdoId/"
    "sequence through base_header. ANN-2: both S1 update sites (handle_announce's critical section and "
    "set_recommended_state) and the M1/M2 site write every data-set field from the prescribed source "
    "(stepsRemoved = E.stepsRemoved + 1 resp. 0), all stores of a site happen under the same conditions as its "
    "first store (no field is refreshed only sometimes), and no other code writes parentDS/currentDS/"
    "timePropertiesDS fields. ANN-3: send_announce passes the live state (the with_ref closure parameter) to "
    "Message::announce, inside the same call. ANN-4: AnnounceMessage::time_properties inverts the flag wiring. "
    "ANN-5: set_clock_quality / set_slave_only write exactly the defaultDS field they name."
    " ANN-7 (= C05 BMCA-7 on calculate_recommended_state): the state decision has the rows of the standard's table for every port state (a Master port without a foreign master still gets M1/M2)."
)
NOT_DECIDED = "timing ('the next Announce sent'); equality of values at run time"

DS_NAMES = ("parent_ds", "current_ds", "time_properties_ds")


def load_spec(ctx):
    with open(os.path.join(ctx.verif, "engine", "spec", "announce_wiring.json")) as f:
        return json.load(f)


def norm_lhs(lhs):
    """strip the receiver so that `state.parent_ds.x`, `parent_ds.x` compare equal"""
    for n in DS_NAMES:
        i = lhs.find(n)
        if i >= 0:
            return lhs[i:]
    return lhs


def norm_rhs(s):
    s = re.sub(r"\bphi\(([^|()]*)\)", r"\1", s)
    s = s.replace("env._ref__announce", "E").replace("recommended_state", "E").replace("announce_message", "E")
    s = re.sub(r"\bannounce\b", "E", s)
    return s


def matches(spec, tree, body):
    if spec.startswith("lin:"):
        want = df.parse_lin(spec[4:]) if spec[4:] != "0" else {}
        got = df.lin(tree, body)
        got = {norm_rhs(k): v for k, v in got.items()}
        return got == want, df.lin_str(got)
    got = norm_rhs(df.canon(tree, body))
    return got == spec, got


def agg_fields(t):
    t = df.strip(t)
    if t[0] == "agg":
        return dict(t[3])
    return None


def run(ctx):
    rep = ctx.report
    prog = ctx.prog("default")
    spec = load_spec(ctx)
    rep.rule("ANN-1", "Announce fields/flags come from the prescribed data-set fields", floor=21)
    rep.rule("ANN-2", "S1 and M1/M2 updates write every data-set field from the prescribed source, unconditionally", floor=21)
    rep.rule("ANN-3", "send_announce builds the Announce from the live state inside the call", floor=1)
    rep.rule("ANN-4", "time_properties() inverts the flag wiring", floor=6)
    rep.rule("ANN-5", "run-time setters write the defaultDS field they name", floor=2)

    # ---------------- ANN-1
    try:
        an = prog.one(name="announce", self_name="Message", crate="statime-lib")
        pv = df.Prov(an)
        ret = df.strip(pv.local_tree(0))
        top = agg_fields(ret) or {}
        hdr = agg_fields(top.get("header", ("unknown",))) or {}
        body_t = df.strip(top.get("body", ("unknown",)))
        ann = None
        if body_t[0] == "agg" and body_t[2] == "Announce":
            ann = agg_fields(dict(body_t[3]).get("0", ("unknown",)))
        for f, want in spec["Announce.header"].items():
            check_field(rep, "ANN-1", an, "header.%s" % f, hdr.get(f), want)
        for f, want in spec["Announce.body"].items():
            check_field(rep, "ANN-1", an, "body.%s" % f, (ann or {}).get(f), want)
        # the header embedded in the body is the same header
        if ann is not None and ann.get("header") is not None and df.canon(ann["header"], an) == df.canon(top.get("header"), an):
            rep.ok("ANN-1", an.key, "body.header == header", where=an.loc(), nontrivial=False)
        else:
            rep.violation("ANN-1", an.key, "body.header == header", "the Announce body carries a different header", where=an.loc())
        bh = prog.one(name="base_header", crate="statime-lib")
        bhf = agg_fields(df.Prov(bh).local_tree(0)) or {}
        for f, want in spec["base_header"].items():
            check_field(rep, "ANN-1", bh, "base_header.%s" % f, bhf.get(f), want)
    except AnchorMissing as e:
        rep.anchor_missing("ANN-1", str(e))

    # ---------------- ANN-2
    sites = {"S1": [], "M1M2": []}
    other_writers = []
    inlined_helpers = set()       # helpers whose stores were attributed to (and are judged at) each of their call sites
    for b in prog.bodies.values():
        if b.unit.name != "statime-lib" or b.is_test():
            continue
        if (b.trait or "").startswith("serde") or "_::" in b.key or (b.trait or "") in (
                "core::clone::Clone", "core::default::Default"):
            continue
        sts, pv = stores(b, include_locals=False)
        inlined_helpers.update(s["inlined_from"] for s in sts if s.get("inlined_from"))
        rel0 = [s for s in sts if not s["macro"] and any(("%s." % n) in (s["lhs"] + ".") for n in DS_NAMES)]
        rel = []
        for s in rel0:
            t0 = df.strip(s["tree"])
            if t0[0] == "call" and norm_lhs(s["lhs"]) in ("parent_ds", "current_ds"):
                it = inline_tree(prog, b, t0)
                if df.strip(it)[0] == "agg":
                    for (l2, t2) in flatten(s["lhs"], df.strip(it)):
                        if l2 != s["lhs"] and not (t2[0] == "const" and isinstance(t2[1], str) and "::" in t2[1]):
                            rel.append(dict(s, lhs=l2, tree=t2))
                    continue
            rel.append(s)
        if not rel:
            continue
        c = cnd.conds(prog, b)
        groups = {}
        for s in rel:
            lits = c.must_literals(s["bb"])
            arm = None
            vs = None
            for l in lits:
                if l[0] == "variant" and l[3] == "RecommendedState":
                    vs = set(l[2]) if vs is None else vs & set(l[2])
            if vs is not None:
                arm = "S1" if vs == {"S1"} else ("M1M2" if vs and vs <= {"M1", "M2"} else "other")
            if arm is None and b.is_closure and "handle_announce" in b.key:
                arm = "S1"
            groups.setdefault(arm, []).append((s, lits))
        for arm, lst in groups.items():
            if arm in ("S1", "M1M2"):
                sites[arm].append((b, lst))
            else:
                other_writers.append((b, lst))
    for arm in ("S1", "M1M2"):
        want_sites = 2 if arm == "S1" else 1
        if len(sites[arm]) != want_sites:
            rep.violation("ANN-2", "<anchor>", "%s update sites" % arm,
                          "expected %d %s data-set update site(s), found %d: %s" % (
                              want_sites, arm, len(sites[arm]), [b.key for b, _ in sites[arm]]))
        for (b, lst) in sites[arm]:
            table = spec[arm]
            seen = {}
            anchor_lits = None
            tp_const = []
            for (s, lits) in lst:
                lhs = norm_lhs(s["lhs"])
                where = fc.where(b, s["line"])
                if lhs in table:
                    ok, got = matches(table[lhs], s["tree"], b)
                    if lhs in seen and arm == "S1" and lhs == "time_properties_ds":
                        pass
                    seen[lhs] = True
                    if anchor_lits is None:
                        anchor_lits = lits
                    if not ok:
                        rep.violation("ANN-2", b.key, "%s:%s" % (arm, lhs),
                                      "%s update writes %s <- %s, IEEE prescribes %s" % (arm, lhs, got, table[lhs]), where=where)
                    elif lits != anchor_lits and not (lits >= anchor_lits and lhs == "time_properties_ds"):
                        extra = sorted(cnd.lit_str(l) for l in lits - anchor_lits)
                        rep.violation("ANN-2", b.key, "%s:%s" % (arm, lhs),
                                      "%s <- %s happens only under the extra condition %s: the field is not refreshed on every "
                                      "%s update" % (lhs, got, extra, arm), where=where)
                    else:
                        rep.ok("ANN-2", b.key, "%s:%s" % (arm, lhs), detail=got, where=where)
                elif arm == "M1M2" and lhs.startswith("time_properties_ds."):
                    tp_const.append("%s <- %s" % (lhs, df.canon(s["tree"], b)))
                elif lhs.startswith("time_properties_ds") or lhs.startswith("parent_ds") or lhs.startswith("current_ds"):
                    rep.violation("ANN-2", b.key, "%s:%s" % (arm, lhs),
                                  "unexpected data-set write %s <- %s in the %s update" % (lhs, df.canon(s["tree"], b), arm), where=where)
            for lhs in table:
                if lhs not in seen:
                    rep.violation("ANN-2", b.key, "%s:%s" % (arm, lhs),
                                  "the %s update never writes %s (expected %s): a stale value stays in the data set and is "
                                  "announced" % (arm, lhs, table[lhs]), where=b.loc())
            # must-pass-through: inside the body that decides on the RecommendedState variant, every returning path from the
            # entry that is consistent with the arm's variant(s) (blocks where another variant is known are cut) passes a
            # write of each prescribed field - a guard arm or early return in front of the update leaves the old data set in place
            cc = cnd.conds(prog, b)
            g = mir.cfg(b)
            wantv = {"S1"} if arm == "S1" else {"M1", "M2"}

            def _in_region(bi):
                vs = None
                for l in cc.must_literals(bi):
                    if l[0] == "variant" and l[3] == "RecommendedState":
                        vs = set(l[2]) if vs is None else vs & set(l[2])
                return bool(vs) and vs <= wantv
            region = {bi for bi in g.reach if bi < g.n and _in_region(bi)}

            def _excluded(bi):       # the variant known at this block is none of the arm's
                for l in cc.must_literals(bi):
                    if l[0] == "variant" and l[3] == "RecommendedState" and not (set(l[2]) & wantv):
                        return True
                return False
            if region:
                off = frozenset(bi for bi in g.reach if bi < g.n and _excluded(bi))
                for lhs in table:
                    blocks = {s_["bb"] for (s_, _) in lst if norm_lhs(s_["lhs"]) == lhs}
                    if not blocks:
                        continue
                    if g.EXIT in g.reachable_from(0, avoid=off | frozenset(blocks)):
                        rep.violation("ANN-2", b.key, "%s:%s:every-path" % (arm, lhs),
                                      "a path through the %s decision returns without writing %s (a guard or early exit in "
                                      "front of the update): the data set keeps a stale value, which is then announced" % (
                                          arm, lhs), where=b.loc())
                    else:
                        rep.ok("ANN-2", b.key, "%s:%s:every-path" % (arm, lhs), where=b.loc(), nontrivial=False)
            if arm == "M1M2":
                if tp_const and all("<- " in x and not re.search(r"<- .*\b(self|default|config|initial)", x) for x in tp_const):
                    rep.violation("ANN-2", b.key, "M1M2:time_properties_ds",
                                  "the grandmaster (M1/M2) update overwrites timePropertiesDS with fixed constants (%s) instead of "
                                  "the instance's configured time properties" % "; ".join(tp_const), where=b.loc())
                elif tp_const:
                    rep.ok("ANN-2", b.key, "M1M2:time_properties_ds", detail=tp_const, where=b.loc())
    for (b, lst) in other_writers:
        if b.name in ("new",) or b.self_name in ("InternalParentDS", "InternalCurrentDS", "TimePropertiesDS"):
            continue
        if b.key in inlined_helpers:
            continue
        for (s, lits) in lst:
            rep.violation("ANN-2", b.key, "writer:%s" % norm_lhs(s["lhs"]),
                          "data-set field %s is written outside the S1 / M1-M2 update sites" % s["lhs"], where=fc.where(b, s["line"]))

    # ---------------- ANN-6
    rep.rule("ANN-6", "the per-master Announce list keeps arrival order when full (the BMCA takes its LAST entry as the "
                      "parent's current Announce) - shared with C06 FM-7", floor=1)
    from rules import c06 as _c06
    _c06.check_eviction(rep, prog, "ANN-6")
    rep.rule("ANN-7", "the state decision yields a recommendation for every port state the standard's table has a row for "
                      "(a Master port with no foreign master still gets M1/M2, which is what refreshes the data sets the "
                      "Announces are built from) - shared with C05 BMCA-7", floor=3)
    from rules import share as _share
    _share.share(ctx, rep, "c05", "BMCA-7", "ANN-7", only=lambda f, c_: f.endswith("::calculate_recommended_state"))

    # ---------------- ANN-3
    try:
        sa_ = prog.one(name="send_announce", self_name="Port", crate="statime-lib")
        found = False
        for cb in prog.closures_of(sa_):
            for bi, t, cal in mir.iter_calls(cb, name="announce"):
                if "messages::<Message>::announce" in cal["key"]:
                    found = True
                    pvc = df.Prov(cb)
                    a0 = df.strip(pvc.op_tree(t["args"][0]))
                    par, pbb = fc.closure_site(prog, cb)
                    via_lock = False
                    if par is not None and pbb is not None:
                        for bj, t2, c2 in mir.iter_calls(par):
                            if c2["name"] in ("with_ref", "with_mut"):
                                tr = df.strip(df.Prov(par).op_tree(t2["args"][1])) if len(t2["args"]) > 1 else ("?",)
                                if tr[0] == "agg" and tr[1] == "closure:" + cb.j["key"]:
                                    via_lock = True
                    if a0[0] == "path" and a0[1] == ("arg", 2) and not df.named_fields(a0) and via_lock:
                        rep.ok("ANN-3", sa_.key, "Message::announce(live state)", where=fc.where(cb, t["sp"][1]))
                    else:
                        rep.violation("ANN-3", sa_.key, "Message::announce(live state)",
                                      "Message::announce is not given the state borrowed from the instance lock in this call "
                                      "(argument: %s)" % df.canon(a0, cb), where=fc.where(cb, t["sp"][1]))
        if not found:
            rep.violation("ANN-3", sa_.key, "Message::announce(live state)",
                          "send_announce does not build the Announce inside a with_ref critical section", where=sa_.loc())
    except AnchorMissing as e:
        rep.anchor_missing("ANN-3", str(e))

    # ---------------- ANN-4
    try:
        tp = prog.one(name="time_properties", self_name="AnnounceMessage", crate="statime-lib")
        pv = df.Prov(tp)
        f = agg_fields(pv.local_tree(0)) or {}
        for k, want in spec["time_properties"].items():
            check_field(rep, "ANN-4", tp, "time_properties.%s" % k, f.get(k), want)
        # leap indicator: each constant under the right flag
        c = cnd.conds(prog, tp)
        okl = {}
        for bi, si, s in mir.iter_stmts(tp):
            if s["k"] == "assign" and s["r"]["k"] == "agg" and s["r"].get("name") == "LeapIndicator":
                v = s["r"]["variant"]
                lits = c.must_literals(bi)
                flags = {}
                for l in lits:
                    if l[0] == "bool":
                        nf = df.named_fields(l[1]) or ()
                        if nf[-1:] in (("leap59",), ("leap61",)):
                            flags[nf[-1]] = l[2]
                okl[v] = flags
        want = {"Leap59": {"leap59": True}, "Leap61": {"leap59": False, "leap61": True},
                "NoLeap": {"leap59": False, "leap61": False}}
        if okl == want:
            rep.ok("ANN-4", tp.key, "leap_indicator from leap59/leap61", detail=str(okl), where=tp.loc())
        else:
            rep.violation("ANN-4", tp.key, "leap_indicator from leap59/leap61",
                          "leap indicator decoding is %s, expected %s" % (okl, want), where=tp.loc())
    except AnchorMissing as e:
        rep.anchor_missing("ANN-4", str(e))

    # ---------------- ANN-5
    for (fn, field, param) in (("set_clock_quality", "clock_quality", "clock_quality"), ("set_slave_only", "slave_only", "slave_only")):
        try:
            b = prog.one(name=fn, self_name="PtpInstance", crate="statime-lib")
        except AnchorMissing as e:
            rep.anchor_missing("ANN-5", str(e))
            continue
        okk = False
        for cb in prog.closures_of(b):
            sts, pvc = stores(cb, include_locals=False)
            for s in sts:
                if s["lhs"].endswith("default_ds.%s" % field):
                    src = df.canon(s["tree"], cb)
                    if src.endswith(param):
                        okk = True
        if okk:
            rep.ok("ANN-5", b.key, "defaultDS.%s <- parameter" % field, where=b.loc())
        else:
            rep.violation("ANN-5", b.key, "defaultDS.%s <- parameter" % field,
                          "%s does not store its argument into defaultDS.%s" % (fn, field), where=b.loc())


def check_field(rep, rid, body, construct, tree, want):
    if tree is None:
        rep.violation(rid, body.key, construct, "field %s not found in the constructed value" % construct, where=body.loc())
        return
    got = df.canon(tree, body)
    if got == want:
        rep.ok(rid, body.key, construct, detail=got, where=body.loc())
    else:
        rep.violation(rid, body.key, construct, "%s is built from `%s`, IEEE 1588 prescribes `%s`" % (construct, got, want),
                      where=body.loc())
