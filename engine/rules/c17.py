"""C17 — shared instance state is never locked re-entrantly or seen half-updated (LOCK-1..5)."""
from sa import mir, dataflow as df, conds as cnd
from sa.callgraph import callgraph
from sa.facts import AnchorMissing

LEVEL = "proof"
ANCHOR_RULE = "LOCK-1"
EXPLANATION = (
    "Static proof obligations over the whole-workspace call graph (MIR of every body of statime, statime-linux "
    "lib and both binaries): (LOCK-1) for every call site of PtpInstanceStateMutex::with_ref/with_mut the closure "
    "passed and everything reachable from it (direct calls, closures it creates, every in-workspace impl of any "
    "trait method called on a generic receiver) contains no acquisition of the instance-state lock; (LOCK-2) the "
    "same for PtpInstanceState::bmca, which runs inside with_mut; (LOCK-3) the lock-order graph over {instance "
    "state, SharedClock mutex} has no cycle; (LOCK-4) no function can run two critical sections that write "
    "parentDS/currentDS/timePropertiesDS one after the other, and none inside a loop, so a reader can never see a "
    "mixture of two sections of one operation; (LOCK-5) each lock impl acquires exactly once, with a blocking "
    "acquisition (read/write/lock/borrow*, never try_*), and drops the guard on the normal and on the unwind path."
    ' LOCK-7: all-or-nothing data-set updates - in a function that writes the data sets no exit decided by a value computed after the first write (an error path) lies between two of its writes.'
    ' LOCK-8 (= C11 ANN-2): the S1 and M1/M2 rewrites assign every field of the group they replace (completeness of an update applied under the lock).'
)
NOT_DECIDED = ("Behaviour of host-provided lock/clock/filter implementations (assumed not to re-enter the instance); "
               "fairness / progress of the host's lock.")
TRUSTED_BASE = [
    "rustc type checking and MIR construction (nightly, mir-opt-level=0)",
    "call-graph resolution rules of engine/sa/callgraph.py (trait calls on generic receivers resolve to every "
    "in-workspace impl plus an EXTERNAL leaf)",
    "host-provided Clock/Filter/AcceptableMasterList/Rng/ForwardedTLVProvider/PtpInstanceStateMutex impls do not "
    "call back into the PtpInstance or its ports",
]
ASSUMPTIONS = TRUSTED_BASE[2:]

MUTEX_TRAIT = "statime::ptp_instance::PtpInstanceStateMutex"
DS_ADTS = ("InternalParentDS", "InternalCurrentDS", "TimePropertiesDS")
DS_FIELDS = ("parent_ds", "current_ds", "time_properties_ds")


def is_lock_call(c):
    return c is not None and c.get("trait") == MUTEX_TRAIT and c["name"] in ("with_ref", "with_mut")


def lock_sites(prog):
    """All (body, bb, term, callee) that call with_ref/with_mut, in non-test code."""
    out = []
    for b in prog.bodies.values():
        if b.is_test():
            continue
        for bi, t in mir.iter_terms(b, "call"):
            c = mir.callee_of(t)
            if is_lock_call(c):
                out.append((b, bi, t, c))
    return out


def closure_arg_body(cg, body, t):
    """The closure / fn item passed as the 2nd argument of with_ref/with_mut."""
    if len(t["args"]) < 2:
        return None
    a = t["args"][1]
    if a["k"] in ("copy", "move"):
        ty = body.ty(a["p"]["ty"])
        if ty["k"] in ("closure", "fndef"):
            return cg.lookup(body.unit, ty["key"])
    if a["k"] == "const" and "fn" in a:
        r = cg.resolve_callee(body, a["fn"])
        return r[0] if r and not isinstance(r[0], tuple) else None
    return None


def writes_ds(body):
    """Does this body assign (through a reference) into one of the three observable data sets?"""
    hits = []
    for bi, si, s in mir.iter_stmts(body):
        if s["k"] != "assign":
            continue
        p = s["p"]
        has_deref = any(e[0] == "deref" for e in p["proj"])
        if not has_deref:
            continue
        for e in p["proj"]:
            if e[0] == "field":
                fty = body.ty(e[3])
                if e[2] in DS_FIELDS or (fty["k"] == "adt" and fty["name"] in DS_ADTS):
                    hits.append((bi, s["sp"][1]))
                    break
        else:
            # whole-struct store through a reference: *(r) = value where r: &mut DS
            t = body.ty(p["ty"])
            if t["k"] == "adt" and t["name"] in DS_ADTS:
                hits.append((bi, s["sp"][1]))
                continue
            # store into a field of a DS reached through a deref of a &mut DS local
            base_ty = body.local_ty(p["l"])
            if base_ty["k"] == "ref" and base_ty["mut"]:
                tgt = body.ty(base_ty["to"])
                if tgt["k"] == "adt" and tgt["name"] in DS_ADTS:
                    hits.append((bi, s["sp"][1]))
    return hits


def run(ctx):
    _run(ctx)
    import witness
    witness.report(ctx, "C17")


def _run(ctx):
    rep = ctx.report
    prog = ctx.prog("default")
    progs = [("default", prog)]
    if ctx.tier == "thorough":
        progs.append(("nostd", ctx.prog("nostd")))
    rep.rule("LOCK-1", "no instance-state lock acquisition is reachable from inside a critical section "
                       "(closure passed to with_ref/with_mut)", floor=22)
    rep.rule("LOCK-2", "PtpInstanceState::bmca and everything reachable from it is lock-free", floor=1)
    rep.rule("LOCK-3", "lock-order graph over {instance state, SharedClock mutex} is acyclic", floor=1)
    rep.rule("LOCK-4", "no function runs two data-set-writing critical sections in sequence or in a loop", floor=2)
    rep.rule("LOCK-6", "whether a data-set-writing critical section runs is never decided by a value read under the lock "
                       "earlier in the same function (no check-then-act across critical sections)", floor=2)
    rep.rule("LOCK-5", "each PtpInstanceStateMutex impl acquires exactly once per call and drops the guard on "
                       "every path", floor=4)
    rep.rule("LOCK-7", "an update of the data sets is all-or-nothing: inside a function that writes them under the lock, "
                       "no exit is reachable between two of its data-set writes (an early return after the first write "
                       "leaves a half-applied update for every later reader)", floor=2)
    for cfgname, p in progs:
        check_prog(ctx, rep, cfgname, p)
    check_all_or_nothing(rep, prog)
    rep.rule("LOCK-8", "an update applied under the lock is COMPLETE: the S1 and M1/M2 rewrites assign every field of the "
                       "parent / current / time-properties group they replace (a field left out keeps the value of the "
                       "previous update, so every later snapshot mixes two updates) - shared with C11 ANN-2", floor=15)
    from rules import share as _share
    _share.share(ctx, rep, "c11", "ANN-2", "LOCK-8")


def check_prog(ctx, rep, cfgname, prog):
    cg = callgraph(prog)
    sites = lock_sites(prog)
    tag = "" if cfgname == "default" else "[%s]" % cfgname
    lock_bodies = {}
    for (b, bi, t, c) in sites:
        lock_bodies.setdefault(b.key, []).append((bi, t, c))

    def holds_lock(n):
        return (not isinstance(n, tuple)) and n.key in lock_bodies

    # ---- LOCK-1
    for (b, bi, t, c) in sites:
        line = t["sp"][1]
        cb = closure_arg_body(cg, b, t)
        construct = "%s(closure)" % c["name"]
        if cb is None:
            rep.violation("LOCK-1" , b.key + tag, construct,
                          "cannot identify the closure passed to %s — critical section not analysable" % c["name"],
                          where="%s:%d" % (b.file, line))
            continue
        order, seen = cg.reachable([cb])
        bad = None
        for n in order:
            if holds_lock(n):
                bad = n
                break
            if isinstance(n, tuple) and n[0] == "EXTERNAL" and n[1].startswith(MUTEX_TRAIT + "::with_"):
                bad = n
                break
        nbodies = sum(1 for n in order if not isinstance(n, tuple))
        externals = sorted({n[1] for n in order if isinstance(n, tuple) and n[0] == "EXTERNAL"})
        if bad is not None:
            path = cg.path_to(seen, bad)
            rep.violation("LOCK-1", b.key + tag, construct,
                          "lock acquisition reachable inside the critical section: " + " -> ".join(path),
                          where="%s:%d" % (b.file, line), detail={"path": path})
        else:
            rep.ok("LOCK-1", b.key + tag, "%s@%s" % (construct, cb.key.split("::")[-1]),
                   detail={"closure": cb.key, "bodies_reachable": nbodies, "external_leaves": externals},
                   where="%s:%d" % (b.file, line), nontrivial=nbodies > 1)
            for e in externals:
                rep.assume("host impl of %s does not re-enter the PtpInstance" % e)

    # ---- LOCK-2
    try:
        bm = prog.one(name="bmca", self_name="PtpInstanceState")
    except AnchorMissing as e:
        rep.anchor_missing("LOCK-2", str(e))
        bm = None
    if bm is not None:
        order, seen = cg.reachable([bm])
        bad = [n for n in order if holds_lock(n)]
        if bad:
            rep.violation("LOCK-2", bm.key + tag, "reachable-lock",
                          "lock acquisition reachable from PtpInstanceState::bmca: " + " -> ".join(cg.path_to(seen, bad[0])),
                          where=bm.loc())
        else:
            rep.ok("LOCK-2", bm.key + tag, "lock-free",
                   detail={"bodies_reachable": sum(1 for n in order if not isinstance(n, tuple))}, where=bm.loc())

    # ---- LOCK-3 lock order graph
    # lock classes: I = instance state (regions = closures of lock sites); K = std Mutex::lock (SharedClock)
    def acquires_mutex(n):
        if isinstance(n, tuple):
            return n[0] == "EXTERN" and ("Mutex>::lock" in n[1] or "mutex::<Mutex>::lock" in n[1])
        return False
    edges = set()
    witness = {}
    for (b, bi, t, c) in sites:
        cb = closure_arg_body(cg, b, t)
        if cb is None:
            continue
        order, seen = cg.reachable([cb])
        for n in order:
            if acquires_mutex(n):
                edges.add(("I", "K"))
                witness.setdefault(("I", "K"), cg.path_to(seen, n))
    # bodies that take a std Mutex guard: anything reachable after the lock call inside that body
    mutex_bodies = []
    for b in prog.bodies.values():
        if b.is_test():
            continue
        for bi, t, c in mir.iter_calls(b, name="lock"):
            if "Mutex" in c["key"]:
                mutex_bodies.append((b, bi))
    for (b, bi) in mutex_bodies:
        # callees invoked in blocks reachable from the lock call while the guard may be live:
        g = mir.cfg(b)
        after = g.reachable_from(b.blocks[bi]["term"]["target"]) if b.blocks[bi]["term"]["target"] is not None else set()
        roots = []
        for (tg, site) in cg.succs(b):
            if site in after:
                roots.append(tg)
        for r in roots:
            if isinstance(r, tuple):
                continue
            if r.self_name == "SharedClock":
                # SharedClock<SharedClock<C>>: nested shared clocks lock distinct mutexes outer->inner; the
                # self edge created by dispatching C::method to SharedClock's own impl is not a cycle
                continue
            order, seen = cg.reachable([r])
            for n in order:
                if holds_lock(n):
                    edges.add(("K", "I"))
                    witness.setdefault(("K", "I"), [b.key] + cg.path_to(seen, n))
    if ("I", "K") in edges and ("K", "I") in edges:
        rep.violation("LOCK-3", "<lock-order>" + tag, "cycle I<->K",
                      "instance-state lock and SharedClock mutex are acquired in both orders: %s / %s" % (
                          witness[("I", "K")], witness[("K", "I")]))
    else:
        rep.ok("LOCK-3", "<lock-order>" + tag, "edges=%s" % sorted(edges),
               detail={"edges": sorted(edges), "mutex_guard_bodies": [b.key for b, _ in mutex_bodies],
                       "witness": {"%s->%s" % k: v for k, v in witness.items()}})

    # ---- LOCK-4 atomic snapshots
    # W-sites: with_mut call sites whose closure (transitively) writes one of the three data sets
    wsites = {}
    for (b, bi, t, c) in sites:
        if c["name"] != "with_mut":
            continue
        cb = closure_arg_body(cg, b, t)
        if cb is None:
            continue
        order, _ = cg.reachable([cb])
        w = []
        for n in order:
            if isinstance(n, tuple):
                continue
            w.extend((n.key, ln) for (_, ln) in writes_ds(n))
        if w:
            wsites.setdefault(b.key, []).append((bi, t, w))
    # ---- LOCK-6 no check-then-act across critical sections: whether a data-set-writing section runs must not be
    # decided by a value that was read from the lock earlier in the same function (the state may have changed in
    # between: the write then lands on top of another thread's update - a mixture of two updates)
    may_lock = set(lock_bodies.keys())
    work_ = list(may_lock)
    callers_ = {}
    for b_ in prog.bodies.values():
        for (tg, site) in cg.succs(b_):
            if not isinstance(tg, tuple):
                callers_.setdefault(tg.key, set()).add(b_.key)
    while work_:
        k_ = work_.pop()
        for ck in callers_.get(k_, ()):
            if ck not in may_lock:
                may_lock.add(ck)
                work_.append(ck)

    def reads_lock(tree, body):
        """does the expression tree contain a call that takes the instance-state lock (with_ref/with_mut or a function
        that reaches one)?"""
        tree = df.strip(tree)
        if tree[0] == "call":
            if tree[2] in ("with_ref", "with_mut"):
                return tree[2]
            tgt = cg.lookup(body.unit, tree[1])
            if tgt is not None and tgt.key in may_lock and tgt.unit.name == "statime-lib":
                return tgt.key
            for a in tree[3]:
                r = reads_lock(a, body)
                if r:
                    return r
            return None
        for sub in df.leaves_and_nodes(tree) if hasattr(df, "leaves_and_nodes") else ():
            pass
        k = tree[0]
        subs = []
        if k == "bin":
            subs = [tree[2], tree[3]]
        elif k in ("un", "cast"):
            subs = [tree[2]]
        elif k == "agg":
            subs = [x for _, x in tree[3]]
        elif k in ("ref", "deref", "discr", "promoted", "field"):
            subs = [tree[1]]
        elif k == "phi":
            subs = list(tree[1])
        for x in subs:
            r = reads_lock(x, body)
            if r:
                return r
        return None

    for k in sorted(wsites):
        b = prog.bodies[k]
        if b.is_test() or b.unit.name != "statime-lib":
            continue
        cc = cnd.conds(prog, b)
        for (bi, t, w) in wsites[k]:
            bad = None
            for l in cc.must_literals(bi):
                trees = [l[1]] if l[0] in ("bool", "variant", "int") else [l[2], l[3]]
                for tr in trees:
                    r = reads_lock(tr, b)
                    if r:
                        bad = (cnd.lit_canon(l, b), r)
            construct = "with_mut@%s" % (w[0][0].split("::")[-1] if w else "?")
            if bad:
                # a section that rewrites the parent data set as a whole (identity AND attributes, as the S1 update does)
                # leaves a consistent single update behind even if its trigger went stale; only a PARTIAL rewrite can
                # mix two updates
                from sa.stores import stores as _stores
                GROUP = {"parent_port_identity", "grandmaster_identity", "grandmaster_clock_quality",
                         "grandmaster_priority_1", "grandmaster_priority_2"}
                written = set()
                cb_ = closure_arg_body(cg, b, t)
                order_, _ = cg.reachable([cb_]) if cb_ is not None else ([], None)
                for n_ in order_:
                    if isinstance(n_, tuple):
                        continue
                    sts_, _pv = _stores(n_, include_locals=False)
                    for s_ in sts_:
                        if "parent_ds" in s_["lhs"]:
                            suf = s_["lhs"].split("parent_ds", 1)[1].lstrip(".")
                            written.add(suf.split(".")[0] if suf else "")
                if "" in written or GROUP <= written or not (written & GROUP):
                    bad = None
            if bad:
                rep.violation("LOCK-6", b.key + tag, construct,
                              "the data-set-writing critical section at line %d runs only when `%s` - a value read from the "
                              "instance state in an EARLIER critical section (%s): another thread can change the state in "
                              "between, so the write mixes two updates" % (t["sp"][1], bad[0], bad[1]),
                              where="%s:%d" % (b.file, t["sp"][1]))
            else:
                rep.ok("LOCK-6", b.key + tag, construct, where="%s:%d" % (b.file, t["sp"][1]))

    # summary: bodies that may run a W critical section (themselves or through callees, outside closures of
    # lock sites, which LOCK-1 already shows lock-free)
    may_w = set(wsites.keys())
    changed = True
    callers = {}
    for b in prog.bodies.values():
        for (tg, site) in cg.succs(b):
            if not isinstance(tg, tuple):
                callers.setdefault(tg.key, set()).add((b.key, site))
    work = list(may_w)
    while work:
        k = work.pop()
        for (ck, site) in callers.get(k, ()):
            if ck not in may_w:
                may_w.add(ck)
                work.append(ck)
    n_checked = 0
    for k in sorted(may_w):
        b = prog.bodies[k]
        if b.is_test() or b.unit.name != "statime-lib":
            # one host call into the library = one operation; the daemon's task loops run many operations
            continue
        events = []  # blocks at which a W critical section (or a call that may run one) happens
        for (bi, t, w) in wsites.get(k, []):
            events.append((bi, "with_mut@L%d" % t["sp"][1]))
        for (tg, site) in cg.succs(b):
            if not isinstance(tg, tuple) and tg.key in may_w and tg.key != k:
                events.append((site, "call %s@L%d" % (tg.key, b.blocks[site]["term"]["sp"][1])))
        events = sorted(set(events))
        g = mir.cfg(b)
        bad = None
        for (bi, what) in events:
            tgt = b.blocks[bi]["term"].get("target")
            after = g.reachable_from(tgt) if tgt is not None else set()
            for (bj, what2) in events:
                if bj in after:
                    bad = (what, what2, bi == bj)
                    break
            if bad:
                break
        n_checked += 1
        if bad:
            rep.violation("LOCK-4", k + tag, "two-sections",
                          "data-set-writing critical sections %s and %s can both run in one call%s: a concurrent "
                          "reader can observe the state between them" % (bad[0], bad[1], " (loop)" if bad[2] else ""),
                          where=b.loc())
        else:
            rep.ok("LOCK-4", k + tag, "events=%d" % len(events),
                   detail={"events": [w for _, w in events],
                           "writes": [w for (_, _, ws) in wsites.get(k, []) for w in ws][:6]},
                   where=b.loc(), nontrivial=bool(events))
    if not wsites:
        rep.violation("LOCK-4", "<anchor>" + tag, "no-ds-writing-section",
                      "found no with_mut critical section that writes parentDS/currentDS/timePropertiesDS — "
                      "the S1/M1 update sites moved out of critical sections or the analysis lost them")

    # ---- LOCK-5 lock impls
    impls = [b for b in prog.bodies.values()
             if b.trait == MUTEX_TRAIT and b.name in ("with_ref", "with_mut") and not b.is_closure]
    for b in impls:
        acq = []
        for bi, t, c in mir.iter_calls(b):
            if c["name"] in ("borrow", "borrow_mut", "read", "write", "lock", "try_borrow", "try_borrow_mut",
                             "try_read", "try_write", "try_lock"):
                acq.append((bi, c["name"]))
        forget = [c["name"] for bi, t, c in mir.iter_calls(b) if c["name"] in ("forget", "leak") or
                  "ManuallyDrop" in c["key"]]
        calls_f = [bi for bi, t, c in mir.iter_calls(b) if c["name"] in ("call_once", "call", "call_mut")]
        # guard local: the local dropped on the normal path after the closure call
        drops_normal = [bi for bi, t in mir.iter_terms(b, "drop") if not b.blocks[bi]["cleanup"]]
        drops_cleanup = [bi for bi, t in mir.iter_terms(b, "drop") if b.blocks[bi]["cleanup"]]
        guard_drop_ok = False
        guard_local = None
        for bi in drops_normal:
            l = b.blocks[bi]["term"]["p"]["l"]
            ty = b.local_ty(l)["s"]
            if "Guard" in ty or "Ref<" in ty or "RefMut<" in ty:
                guard_local = l
                g = mir.cfg(b)
                # drop must post-dominate the closure call
                if calls_f and all(g.postdominates(bi, cb) for cb in calls_f):
                    guard_drop_ok = True
        unwind_ok = guard_local is not None and any(
            b.blocks[bi]["term"]["p"]["l"] == guard_local for bi in drops_cleanup)
        construct = "%s::%s" % (b.self_name, b.name)
        if len(acq) == 1 and acq[0][1].startswith("try_"):
            rep.violation("LOCK-5", b.key + tag, construct,
                          "lock impl acquires with the non-blocking `%s`: a port operation that meets another thread's "
                          "critical section fails/panics instead of waiting (the property quantifies over ports driven "
                          "from different threads over a BLOCKING lock)" % acq[0][1], where=b.loc())
        elif len(acq) != 1 or len(calls_f) != 1 or forget or not guard_drop_ok or not unwind_ok:
            rep.violation("LOCK-5", b.key + tag, construct,
                          "lock impl does not acquire exactly once / release on every path: acquisitions=%s, "
                          "closure calls=%d, forget=%s, guard dropped after call=%s, on unwind=%s" % (
                              acq, len(calls_f), forget, guard_drop_ok, unwind_ok), where=b.loc())
        else:
            rep.ok("LOCK-5", b.key + tag, construct, detail={"acquire": acq[0][1], "guard_local": guard_local},
                   where=b.loc())


def check_all_or_nothing(rep, prog):
    """LOCK-7: for data-set stores A, B of one function with B reachable from A, every path from A to the exit passes B
    (stores that are conditional on each other's region - a store in one match arm, another in a different arm - are not
    related: B must be reachable from A)."""
    for b in prog.bodies.values():
        if b.unit.name != "statime-lib" or b.is_test():
            continue
        hits = writes_ds(b)
        if len(hits) < 2:
            continue
        g = mir.cfg(b)
        blocks = sorted({bi for bi, _ in hits})
        line_of = {}
        for bi, ln in hits:
            line_of.setdefault(bi, ln)
        bad = None
        for a in blocks:
            reach_a = g.reachable_from(a)
            for t_ in blocks:
                if t_ == a or t_ not in reach_a:
                    continue
                # can the exit be reached from a without passing t_?
                seen, st = {a}, [a]
                escaped = False
                while st and not escaped:
                    x = st.pop()
                    for y in g.succ[x]:
                        if y == t_ or y in seen:
                            continue
                        if y == g.EXIT:
                            escaped = True
                            break
                        seen.add(y)
                        st.append(y)
                if escaped and _exit_between(b, g, a, t_):
                    bad = (a, t_)
                    break
            if bad:
                break
        construct = "data-set writes are all-or-nothing"
        if bad:
            rep.violation("LOCK-7", b.key, construct,
                          "after the data-set write at line %d the function can return without performing the write at line "
                          "%d (an error path or early return between them): readers then see a half-applied update" % (
                              line_of[bad[0]], line_of[bad[1]]), where="%s:%d" % (b.file, line_of[bad[0]]))
        else:
            rep.ok("LOCK-7", b.key, construct, detail={"write blocks": len(blocks)}, where=b.loc())


def _exit_between(b, g, a, t_):
    """is there a block x, reachable from a and from which t_ is reachable, with a successor edge that leads to the
    exit without t_? (the return sits on the way from a to t_)"""
    reach_a = g.reachable_from(a) | {a}
    for x in reach_a:
        if x == g.EXIT or x == t_:
            continue
        if t_ not in g.reachable_from(x):
            continue
        for y in g.succ[x]:
            if y == t_:
                continue
            if y == g.EXIT or (t_ not in g.reachable_from(y) and g.EXIT in (g.reachable_from(y) | {y})):
                # x can still reach t_, but this edge gives it up. An edge that merely selects another arm of a match
                # on a value that was known before the first write (the decision code, a parameter) is not an early
                # return; one that is decided by something computed AFTER the first write (the result of a call made
                # in between - an error path) is.
                if _decided_after(b, g, x, a):
                    return True
    return False


def _decided_after(b, g, x, a):
    t = b.blocks[x]["term"]
    if t["k"] != "switch":
        return t["k"] in ("call", "assert", "drop") and False
    d = df.defs(b)
    after = g.reachable_from(a) | {a}
    start = mir.op_place(t["discr"])
    if start is None:
        return False
    seen, work = set(), [start["l"]]
    while work:
        l = work.pop()
        if l in seen:
            continue
        seen.add(l)
        for (bi, si, dd) in d.whole.get(l, []):
            if dd[0] != "assign":
                # defined by a call: where was it made?
                if bi in after:
                    return True
                continue
            r = dd[1]
            for key in ("op", "a", "b", "p"):
                o = r.get(key)
                if isinstance(o, dict):
                    pl = o.get("p") if o.get("k") in ("copy", "move") else (o if "l" in o and "proj" in o else None)
                    if pl is not None:
                        work.append(pl["l"])
            for o in r.get("ops", []) or []:
                pl = o.get("p") if isinstance(o, dict) and o.get("k") in ("copy", "move") else None
                if pl is not None:
                    work.append(pl["l"])
    return False
