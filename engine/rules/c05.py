"""C05 — BMCA state decision matches IEEE 1588 for every data set combination (BMCA-1..7)."""
import json, os, re
from sa import mir, dataflow as df, conds as cnd, fsm
from sa.callgraph import callgraph
from sa.facts import AnchorMissing
from rules import fsm_common as fc

LEVEL = "other"
ANCHOR_RULE = "BMCA-7"
EXPLANATION = (
    "BMCA-7/1: the decision tables of the data set comparison (compare, compare_same_identity = Figure 35, "
    "as_ordering) and of the state decision algorithm (calculate_recommended_state, _low_class, _high_class, "
    "compare_global_and_port, compare_d0_best = Figure 33) are extracted from MIR as rows (result, path conditions "
    "that hold on every path to it, parameters by position) and must equal engine/spec/bmca.json, which was "
    "checked row by row against IEEE 1588-2019 Figures 33-35; this fixes which operands every comparison pairs "
    "(same field of A and B, except the four receiver-vs-sender comparisons of Figure 35). BMCA-2: the Figure 34 "
    "chain compares priority1, clockClass, accuracy, variance, priority2, identity in that order, each closure "
    "pairing the same field of self and other (captures resolved), and maps Less to Better. BMCA-3: "
    "PtpInstanceState::bmca feeds the decision with defaultDS, Ebest = best over best_local_announce_message_"
    "for_bmca of ALL ports, Erbest and state of the SAME port the decision is applied to, after recomputing every "
    "port's Erbest. BMCA-4: master-only and faulty ports are excluded from Ebest. BMCA-5: decision codes are "
    "applied to port states as the standard prescribes (S1->Slave, M*->Master unless slave-only (Listening) or "
    "multiport-disabled (Passive), P*->Passive) from every prior state. BMCA-6: data-set updates for S1 and "
    "M1/M2 (shared with C11 ANN-2)."
)
NOT_DECIDED = ("that the comparison is a total preorder and the outcome is independent of presentation order on exact "
               "ties (value-level); behaviour with more than 8 foreign masters")


def load_spec(ctx):
    with open(os.path.join(ctx.verif, "engine", "spec", "bmca.json")) as f:
        return json.load(f)


def explicit_max_loop(prog, b):
    c = cnd.conds(prog, b)
    d = df.defs(b)
    best = None
    for l, ds in d.whole.items():
        if len(ds) == 2 and not (1 <= l <= b.argc):
            trees = []
            for (bi, si, dd) in ds:
                trees.append((bi, df.canon(c.prov.rvalue_tree(dd[1]) if dd[0] == "assign" else c.prov.call_tree(dd[1]), b)))
            # first candidate, then replaced by a later `next(iter)` item
            if any(t_.startswith("branch(next(") or t_.startswith("next(") for (_, t_) in trees) and \
                    any(t_ == "next(iter)" for (_, t_) in trees):
                best = (l, trees)
    if best is None:
        return False
    l, trees = best
    repl = [bi for (bi, t_) in trees if t_ == "next(iter)"]
    ok_repl = False
    for bi in repl:
        for lit in c.must_literals(bi):
            x = None
            if lit[0] == "cmp" and lit[1] == "ne" and df.canon(lit[3], b).startswith("Ordering::Greater"):
                x = df.strip(lit[2])
            elif lit[0] == "variant" and lit[3] == "Ordering" and lit[2] and "Greater" not in lit[2]:
                # the same test as a variant literal: compare(..) in {Less, Equal}
                x = df.strip(lit[1])
            if x is not None:
                if x[0] == "call" and x[2] == "compare" and "BestAnnounceMessage" in x[1] and len(x[3]) == 2 and \
                        df.canon(x[3][1], b) == "next(iter)":
                    ok_repl = True
    # the result is Some(best) once the iterator is exhausted; an empty input gives None through `?`
    rows = cnd.result_rows(prog, b)
    ok_ret = any(r_.startswith("Some(phi(") and any("next(iter) in {None}" == w for w in w_) for (r_, w_) in rows)
    return ok_repl and ok_ret


def check_decision_application(rep, prog, rid="BMCA-5"):
    """every decision code moves the port to the prescribed state, from every prior state. Shared with C12 (TMR-7:
    a decision that is skipped for some prior state leaves the port where no timer will ever move it)."""
    # ---------------- BMCA-5
    rows = fsm.transitions(prog)
    seen = set()
    for r in rows:
        dec = None
        for l in r["lits"]:
            if l[0] == "variant" and l[3] == "RecommendedState":
                dec = set(l[2]) if dec is None else dec & set(l[2])
        if dec is None or not r["to"] or len(r["to"]) != 1:
            continue
        b = r["body"]
        tgt = list(r["to"])[0]
        lits = r["lits"]
        so = any(l[0] == "bool" and (df.named_fields(l[1]) or ())[-1:] == ("slave_only",) and l[2] is True for l in lits)
        nso = any(l[0] == "bool" and (df.named_fields(l[1]) or ())[-1:] == ("slave_only",) and l[2] is False for l in lits)
        mp = any(l[0] == "bool" and "multiport_disable" in df.tree_str(l[1]) and l[2] is True for l in lits)
        nmp = any(l[0] == "bool" and "multiport_disable" in df.tree_str(l[1]) and l[2] is False for l in lits)
        if dec == {"S1"}:
            want = "Slave"
        elif dec <= {"M1", "M2", "M3"}:
            want = "Listening" if so else ("Passive" if (nso and mp) else ("Master" if (nso and nmp) else "?"))
        elif dec <= {"P1", "P2"}:
            want = "Passive"
        else:
            want = "?"
        construct = "%s -> %s" % ("|".join(sorted(dec)), tgt)
        seen.add(("|".join(sorted(dec)), tgt))
        must_cover = set(fsm.STATES) - {tgt, "Faulty"}
        if tgt == "Slave":
            must_cover = {"Listening", "Master", "Passive", "Slave"}
        missing = must_cover - r["from"]
        if want != tgt:
            rep.violation(rid, b.key, construct,
                          "decision %s moves the port to %s here, the standard (with statime's documented deviations) "
                          "prescribes %s under these conditions" % ("|".join(sorted(dec)), tgt, want), where=fc.where(b, r["line"]))
        elif missing:
            rep.violation(rid, b.key, construct,
                          "decision %s is not applied when the port is %s" % ("|".join(sorted(dec)), sorted(missing)),
                          where=fc.where(b, r["line"]))
        else:
            rep.ok(rid, b.key, construct, detail="from {%s}" % ",".join(sorted(r["from"])), where=fc.where(b, r["line"]))
    for need in (("S1", "Slave"), ("M1|M2|M3", "Master"), ("M1|M2|M3", "Listening"), ("M1|M2|M3", "Passive"), ("P1|P2", "Passive")):
        if need not in seen:
            rep.violation(rid, "<fsm>", "%s -> %s" % need, "no transition implements decision %s -> %s" % need)


def run(ctx):
    rep = ctx.report
    prog = ctx.prog("default")
    spec = load_spec(ctx)
    cg = callgraph(prog)
    rep.rule("BMCA-7", "decision tables of Figures 33/35 equal the spec rows", floor=30)
    rep.rule("BMCA-2", "Figure 34 chain order and same-field pairing", floor=7)
    rep.rule("BMCA-3", "Ebest/Erbest/state wiring of the instance-level BMCA", floor=5)
    rep.rule("BMCA-4", "master-only and faulty ports are excluded from Ebest", floor=1)
    rep.rule("BMCA-5", "decision codes are applied to port states as prescribed, from every prior state", floor=5)
    rep.rule("BMCA-6", "S1 / M1-M2 data-set updates (shared with C11)", floor=20)

    # ---------------- BMCA-7 / BMCA-1
    for name, rows in spec.items():
        if "::" not in name:
            continue
        sn, fn = name.split("::")
        try:
            b = prog.one(name=fn, self_name=sn, crate="statime-lib")
        except AnchorMissing as e:
            rep.anchor_missing("BMCA-7", str(e))
            continue
        got = cnd.result_rows(prog, b, positional=True)
        want = sorted((r["result"], sorted(r["when"])) for r in rows)
        if fn == "find_best_announce_message" and not any(r_.startswith("max_by(") for (r_, w_) in got):
            # the same selection written as an explicit loop: start from the first candidate, replace the incumbent
            # unless incumbent.compare(candidate) is Greater (= Iterator::max_by: last maximum wins), return Some(best)
            if explicit_max_loop(prog, b):
                rep.ok("BMCA-7", b.key, "explicit maximum loop under BestAnnounceMessage::compare (== max_by)", where=b.loc())
                continue
        # normal form: integer constraints folded per subject, multi-variant literals split (see conds.norm_rows)
        gset = cnd.norm_rows(got)
        wset = cnd.norm_rows(want)
        for row in wset:
            if row in gset:
                rep.ok("BMCA-7", b.key, "%s <= %s" % (row[0], "; ".join(row[1]))[:180], where=b.loc())
            else:
                near = [g for g in gset if g[0] == row[0]]
                rep.violation("BMCA-7", b.key, ("%s <= %s" % (row[0], "; ".join(row[1])))[:160],
                              "IEEE 1588 prescribes `%s` exactly when [%s]; the code yields it when %s" % (
                                  row[0], "; ".join(row[1]), [list(g[1]) for g in near] or "never"), where=b.loc())
        for row in gset:
            if row not in wset:
                rep.violation("BMCA-7", b.key, ("extra: %s <= %s" % (row[0], "; ".join(row[1])))[:160],
                              "the code yields `%s` under [%s], a row the standard's decision table does not have" % (
                                  row[0], "; ".join(row[1])), where=b.loc())

    # ---------------- BMCA-2
    try:
        cd = prog.one(name="compare_different_identity", self_name="ComparisonDataset", crate="statime-lib")
        pv = df.Prov(cd)
        c = cnd.conds(prog, cd)
        # the ordering value: find the then_with chain in a literal / the discriminant tree
        chain = None
        for bi, t in mir.iter_terms(cd, "switch"):
            tr = df.strip(pv.op_tree(t["discr"]))
            if tr[0] == "discr":
                x = df.strip(tr[1])
                if x[0] == "call" and x[2] == "then_with":
                    chain = x
        seq = []
        ok_pair = True
        detail = []
        cur = chain
        closures = []
        while cur is not None and cur[0] == "call" and cur[2] == "then_with":
            closures.append(df.strip(cur[3][1]))
            cur = df.strip(cur[3][0])
        first = cur
        items = []
        if first is not None and first[0] == "call" and first[2].startswith("cmp"):
            items.append((first[3][0], first[3][1]))
        for clo in reversed(closures):
            if clo[0] == "agg" and clo[1].startswith("closure:"):
                cb = cg.lookup(cd.unit, clo[1][len("closure:"):])
                caps = dict(clo[3])
                pvc = df.Prov(cb, captures=caps)
                for bi, t, cal in mir.iter_calls(cb):
                    if cal["name"] in ("cmp", "cmp_numeric"):
                        items.append((pvc.op_tree(t["args"][0]), pvc.op_tree(t["args"][1])))
        for (a, b_) in items:
            fa, fb = df.named_fields(a), df.named_fields(b_)
            ra, rb = df.path_root(a), df.path_root(b_)
            nm = ".".join(fa) if fa else df.canon(a, cd)
            seq.append(nm)
            if not (fa and fa == fb and ra == ("arg", 1) and rb == ("arg", 2)):
                ok_pair = False
                detail.append("%s vs %s" % (df.canon(a, cd), df.canon(b_, cd)))
        want = spec["figure34_order"]
        for i, f in enumerate(want):
            got = seq[i] if i < len(seq) else None
            if got == f:
                rep.ok("BMCA-2", cd.key, "step %d: %s" % (i + 1, f), where=cd.loc())
            else:
                rep.violation("BMCA-2", cd.key, "step %d: %s" % (i + 1, f),
                              "Figure 34 compares %s at step %d, the code compares %s (sequence: %s)" % (f, i + 1, got, seq),
                              where=cd.loc())
        if ok_pair and len(seq) == len(want):
            rep.ok("BMCA-2", cd.key, "same-field pairing self vs other", where=cd.loc())
        else:
            rep.violation("BMCA-2", cd.key, "same-field pairing self vs other",
                          "a comparison of the Figure 34 chain pairs different fields / the wrong data sets: %s" % detail, where=cd.loc())
        rows = cnd.result_rows(prog, cd, positional=True)
        res = {}
        for r, w in rows:
            for x in w:
                m = re.search(r"in \{(\w+)\}$", x)
                if m and r.startswith("DatasetOrdering::"):
                    res[m.group(1)] = r.split("::")[1].rstrip("{}")
        if res.get("Less") == "Better" and res.get("Greater") == "Worse":
            rep.ok("BMCA-2", cd.key, "lower value is better", where=cd.loc())
        else:
            rep.violation("BMCA-2", cd.key, "lower value is better",
                          "ordering -> result mapping is %s, expected Less->Better, Greater->Worse" % res, where=cd.loc())
    except AnchorMissing as e:
        rep.anchor_missing("BMCA-2", str(e))

    # ---------------- BMCA-3
    try:
        bm = prog.one(name="bmca", self_name="PtpInstanceState", crate="statime-lib")
        pv = df.Prov(bm)
        found = False
        for bi, t, cal in mir.iter_calls(bm, name="calculate_recommended_state"):
            found = True
            a = [df.canon(pv.op_tree(x), bm) for x in t["args"]]
            where = fc.where(bm, t["sp"][1])
            checks = []
            checks.append(("own data = defaultDS", a[0].endswith("self.default_ds")))
            eb = df.strip(pv.op_tree(t["args"][1]))
            uses_all = "find_best_announce_message(filter_map(iter(" in a[1] and "ports" in a[1]
            clo_ok = False
            for x in df.leaves(eb):
                pass
            m = re.search(r"closure", a[1])
            # the filter_map closure must call best_local_announce_message_for_bmca
            for cb in prog.closures_of(bm):
                names = [c2["name"] for _, _, c2 in mir.iter_calls(cb)]
                if "best_local_announce_message_for_bmca" in names:
                    clo_ok = True
                if "best_local_announce_message_for_state" in names:
                    clo_ok = False
                    break
            checks.append(("Ebest = best over best_local_announce_message_for_bmca of all ports", uses_all and clo_ok))
            m3 = re.fullmatch(r"best_local_announce_message_for_state\((.*)\)", a[2])
            m4 = re.fullmatch(r"state\((.*)\)", a[3])
            same_port = bool(m3 and m4 and m3.group(1) == m4.group(1))
            checks.append(("Erbest and state of the same port", same_port))
            applied = False
            for bj, t2, c2 in mir.iter_calls(bm, name="set_recommended_state"):
                p0 = df.canon(pv.op_tree(t2["args"][0]), bm)
                dec = df.canon(pv.op_tree(t2["args"][1]), bm)
                if m3 and p0 == m3.group(1) and "calculate_recommended_state(" in dec:
                    applied = True
            checks.append(("decision applied to that same port", applied))
            for (nm, ok) in checks:
                if ok:
                    rep.ok("BMCA-3", bm.key, nm, where=where)
                else:
                    rep.violation("BMCA-3", bm.key, nm, "BMCA wiring broken: %s does not hold (arguments: %s)" % (nm, a), where=where)
        if not found:
            rep.violation("BMCA-3", bm.key, "calculate_recommended_state", "call not found", where=bm.loc())
        from rules.c06 import always_called
        ok, detail = always_called(prog, bm, "calculate_best_local_announce_message")
        if ok:
            rep.ok("BMCA-3", bm.key, "Erbest recomputed for every port first", detail=detail, where=bm.loc())
        else:
            rep.violation("BMCA-3", bm.key, "Erbest recomputed for every port first", detail, where=bm.loc())
    except AnchorMissing as e:
        rep.anchor_missing("BMCA-3", str(e))

    # ---------------- BMCA-4
    try:
        from rules import c08
        bl = prog.one(name="best_local_announce_message_for_bmca", self_name="Port", crate="statime-lib")
        c08.check_exclusion_gate(rep, prog, bl, "BMCA-4")
    except AnchorMissing as e:
        rep.anchor_missing("BMCA-4", str(e))

    check_decision_application(rep, prog)

    # ---------------- BMCA-6 (shared with C11 ANN-2)
    from rules import c11, c03
    sub = c03.sub_report(ctx)
    sub.report.prop = "C11"
    try:
        c11.run(sub)
    except AnchorMissing as e:
        rep.anchor_missing("BMCA-6", str(e))
    for inst in sub.report.instances.get("ANN-2", []):
        parts = inst["key"].split("|")
        if inst["status"] == "ok":
            rep.ok("BMCA-6", parts[1], parts[2], detail=inst.get("detail"), where=inst.get("where"))
    for v in sub.report.violations:
        if v["rule"] == "ANN-2":
            rep.violation("BMCA-6", v["function"], v["construct"], v["what"], where=v.get("where"))
