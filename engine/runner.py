"""Check runner: fact extraction with a content-hash cache, rule execution, evidence, known findings.

Interface (DESIGN.md §2): ./check Cnn [--tier quick|thorough] [--explain <replay>]
exit 0 = property clauses held (KNOWN-FINDING lines allowed), 1 = VIOLATION printed, 2 = internal failure.
"""
import re, os, sys, json, hashlib, subprocess, time, shutil, fcntl, tempfile, importlib, traceback, collections

VERIF = os.path.dirname(os.path.dirname(os.path.abspath(__file__)))
REPO = os.environ.get("VERIF_REPO", "/repo")
DRIVER = os.path.join(VERIF, "engine", "driver", "target", "release", "statime-facts-driver")
CACHE = os.path.join(VERIF, ".cache")
WORK = os.path.join(VERIF, ".work")
EVID = os.environ.get("VERIF_EVIDENCE_DIR", os.path.join(VERIF, "evidence"))

sys.path.insert(0, os.path.join(VERIF, "engine"))
from sa.facts import Program, AnchorMissing  # noqa: E402

CONFIGS = {
    # name: cargo args
    "default": ["--workspace"],
    "nostd": ["-p", "statime", "--lib", "--no-default-features"],
    "fuzz": ["-p", "statime", "--lib", "--features", "fuzz"],
}
FLOORS = {"default": {"statime-lib": 900, "statime_linux-lib": 200, "statime-bin": 50,
                      "statime_metrics_exporter-bin": 1},
          "nostd": {"statime-lib": 600}, "fuzz": {"statime-lib": 900}}


def tree_hash(repo=REPO):
    h = hashlib.sha256()
    roots = ["statime", "statime-linux", "Cargo.toml", "Cargo.lock"]
    files = []
    for r in roots:
        p = os.path.join(repo, r)
        if os.path.isfile(p):
            files.append(p)
        else:
            for dp, dn, fn in os.walk(p):
                dn[:] = sorted(d for d in dn if d not in ("target", ".git"))
                for f in sorted(fn):
                    files.append(os.path.join(dp, f))
    for f in sorted(files):
        h.update(os.path.relpath(f, repo).encode())
        h.update(b"\0")
        try:
            with open(f, "rb") as fh:
                h.update(fh.read())
        except OSError:
            pass
        h.update(b"\0")
    with open(DRIVER, "rb") as fh:
        h.update(hashlib.sha256(fh.read()).digest())
    return h.hexdigest()[:24]


def sysroot_lib():
    out = subprocess.check_output(["rustc", "+nightly", "--print", "sysroot"], text=True).strip()
    return os.path.join(out, "lib")


def ensure_driver():
    if not os.path.exists(DRIVER):
        r = subprocess.run([os.path.join(VERIF, "setup.sh")], cwd=VERIF)
        if r.returncode != 0 or not os.path.exists(DRIVER):
            raise InternalError("driver build failed")


class InternalError(Exception):
    pass


def extract(config, repo=REPO, out_dir=None, quiet=True):
    """Run the driver over `repo` for one configuration into out_dir (fresh target dir, removed after)."""
    os.makedirs(WORK, exist_ok=True)
    tgt = tempfile.mkdtemp(prefix="tgt-", dir=WORK)
    facts_tmp = tempfile.mkdtemp(prefix="facts-", dir=WORK)
    env = dict(os.environ)
    env.update({
        "LD_LIBRARY_PATH": sysroot_lib() + ":" + env.get("LD_LIBRARY_PATH", ""),
        "RUSTFLAGS": "-Zmir-opt-level=0 -Awarnings",
        "RUSTC_WORKSPACE_WRAPPER": DRIVER,
        "VERIF_FACTS_DIR": facts_tmp,
        "CARGO_TARGET_DIR": tgt,
        "CARGO_NET_OFFLINE": "true",
    })
    env.pop("RUSTC_WRAPPER", None)
    cmd = ["cargo", "+nightly", "check", "--offline"] + CONFIGS[config]
    try:
        r = subprocess.run(cmd, cwd=repo, env=env, stdout=subprocess.PIPE, stderr=subprocess.STDOUT, text=True)
        if r.returncode != 0:
            raise InternalError("cargo check failed for config %s:\n%s" % (config, r.stdout[-4000:]))
        files = [f for f in os.listdir(facts_tmp) if f.endswith(".json")]
        if not files:
            raise InternalError("driver produced no fact files (config %s)" % config)
        os.makedirs(os.path.dirname(out_dir), exist_ok=True)
        if os.path.exists(out_dir):
            shutil.rmtree(out_dir)
        os.rename(facts_tmp, out_dir)
    finally:
        shutil.rmtree(tgt, ignore_errors=True)
        shutil.rmtree(facts_tmp, ignore_errors=True)
    return out_dir


def prune_cache(keep):
    try:
        ents = [os.path.join(CACHE, d) for d in os.listdir(CACHE) if os.path.isdir(os.path.join(CACHE, d))]
    except OSError:
        return
    ents.sort(key=lambda p: os.path.getmtime(p), reverse=True)
    for p in ents[30:]:
        if os.path.basename(p) != keep:
            shutil.rmtree(p, ignore_errors=True)
            for f in os.listdir(CACHE):
                if f.startswith(".lock-" + os.path.basename(p)):
                    try:
                        os.unlink(os.path.join(CACHE, f))
                    except OSError:
                        pass


def facts_for(config, repo=REPO):
    """Return the facts dir for the current working tree of `repo`; extract when not cached."""
    ensure_driver()
    os.makedirs(CACHE, exist_ok=True)
    h = tree_hash(repo)
    d = os.path.join(CACHE, h, config)
    # one extraction per (tree, configuration): checks of the same tree wait for the first one's facts, checks of
    # different trees (scratch copies in the validation tools) extract in parallel
    lock = open(os.path.join(CACHE, ".lock-%s-%s" % (h, config)), "w")
    fcntl.flock(lock, fcntl.LOCK_EX)
    try:
        if not (os.path.isdir(d) and any(f.endswith(".json") for f in os.listdir(d))):
            extract(config, repo, d)
        os.utime(os.path.join(CACHE, h), None)
    finally:
        fcntl.flock(lock, fcntl.LOCK_UN)
        lock.close()
    glock = open(os.path.join(CACHE, ".lock"), "w")
    fcntl.flock(glock, fcntl.LOCK_EX)
    try:
        prune_cache(h)
    finally:
        fcntl.flock(glock, fcntl.LOCK_UN)
        glock.close()
    return d, h


def load_program(config, repo=REPO):
    d, h = facts_for(config, repo)
    prog = Program(d)
    prog.tree_hash = h
    prog.config = config
    counts = {u.name: len(u.bodies) for u in prog.units}
    for name, floor in FLOORS[config].items():
        if counts.get(name, 0) < floor:
            raise InternalError("fact floor missed for %s/%s: %d < %d" % (config, name, counts.get(name, 0), floor))
    return prog


# ---------------------------------------------------------------- reporting

class Report:
    def __init__(self, prop):
        self.prop = prop
        self.rules = collections.OrderedDict()   # id -> text
        self.instances = collections.OrderedDict()  # rule -> list of dict
        self.violations = []
        self.notes = []
        self.assumptions = []
        self.extra = {}
        self._ord = collections.Counter()

    def rule(self, rid, text, floor=None):
        self.rules[rid] = {"text": text, "floor": floor}
        self.instances.setdefault(rid, [])

    def _key(self, rid, func, construct):
        base = "%s|%s|%s" % (rid, func, construct)
        n = self._ord[base]
        self._ord[base] += 1
        return "%s|#%d" % (base, n)

    def ok(self, rid, func, construct, detail=None, nontrivial=True, where=None):
        self.instances[rid].append({"key": "%s|%s|%s" % (rid, func, construct), "status": "ok",
                                    "detail": detail, "nontrivial": nontrivial, "where": where})

    def violation(self, rid, func, construct, what, where=None, detail=None):
        key = self._key(rid, func, construct)
        v = {"rule": rid, "key": key, "function": func, "construct": construct, "what": what,
             "where": where, "detail": detail}
        self.instances[rid].append({"key": key, "status": "violation", "detail": what, "nontrivial": True,
                                    "where": where})
        self.violations.append(v)

    def anchor_missing(self, rid, what):
        self.violation(rid, "<anchor>", what, "anchor missing: %s (fail closed)" % what)

    def note(self, s):
        self.notes.append(s)

    def assume(self, s):
        if s not in self.assumptions:
            self.assumptions.append(s)


def load_known():
    p = os.path.join(VERIF, "known_findings.json")
    if not os.path.exists(p):
        return []
    with open(p) as f:
        return json.load(f)["findings"]


LEVELS = {}


def run_check(prop, tier, explain=None):
    t0 = time.time()
    seed = int(os.environ.get("VERIF_SEED", "0") or 0)
    mod = importlib.import_module("rules.%s" % prop.lower())
    rep = Report(prop)
    progs = {}

    class Ctx:
        pass
    ctx = Ctx()
    ctx.tier = tier
    ctx.report = rep
    ctx.verif = VERIF
    ctx.repo = REPO

    def get_prog(config="default"):
        if config not in progs:
            progs[config] = load_program(config)
        return progs[config]
    ctx.prog = get_prog
    ctx.explain = explain

    def get_witnesses():
        import witness
        d, h = facts_for("default")
        try:
            return witness.run_all(VERIF, REPO, os.path.dirname(d))
        except RuntimeError as e:
            raise InternalError(str(e))
    ctx.witnesses = get_witnesses
    try:
        mod.run(ctx)
    except AnchorMissing as e:
        rep.anchor_missing(getattr(mod, "ANCHOR_RULE", "ANCHOR"), str(e))
    # floors
    for rid, meta in rep.rules.items():
        fl = meta["floor"]
        n = len(rep.instances.get(rid, []))
        has_v = any(i["status"] == "violation" for i in rep.instances.get(rid, []))
        if fl is not None and n < fl and not has_v:
            rep.violation(rid, "<floor>", "instances=%d<floor=%d" % (n, fl),
                          "rule %s matched %d instances, fewer than the %d confirmed by hand (fail closed)" % (rid, n, fl))
    known = [k for k in load_known() if k["property"] == prop]
    known_keys = {k["key"]: k for k in known if k.get("status") == "known"}
    out_lines = []
    n_viol = 0
    n_known = 0
    replay_dir = os.path.join(EVID, "replay")
    os.makedirs(replay_dir, exist_ok=True)
    for f in os.listdir(replay_dir):
        if f.startswith(prop + "-"):
            os.unlink(os.path.join(replay_dir, f))
    for v in rep.violations:
        if v["key"] in known_keys:
            n_known += 1
            out_lines.append("KNOWN-FINDING: property=%s %s -- %s" % (prop, v["key"], known_keys[v["key"]]["what"]))
            v["known"] = True
        else:
            n_viol += 1
            path = os.path.join(replay_dir, "%s-%d.json" % (prop, n_viol))
            with open(path, "w") as f:
                json.dump(v, f, indent=1)
            out_lines.append("VIOLATION property=%s replay=%s" % (prop, path))
            out_lines.append("  rule=%s key=%s" % (v["rule"], v["key"]))
            out_lines.append("  at %s: %s" % (v.get("where"), v["what"]))
    if tier == "thorough" and not os.environ.get("VERIF_NO_AUDIT") and REPO == "/repo":
        try:
            rep.extra["sensitivity_audit"] = sensitivity_audit(prop)
        except Exception as e:  # the audit says nothing about the property; never let it change the verdict
            rep.extra["sensitivity_audit"] = {"error": repr(e)}
    wall = time.time() - t0
    write_evidence(mod, rep, prop, tier, seed, wall, n_viol, n_known, progs)
    for l in out_lines:
        print(l)
    summary = ", ".join("%s:%d" % (r, len(i)) for r, i in rep.instances.items())
    print("%s %s: %d rule instances (%s); %d known findings; %d violations; %.1fs" % (
        prop, tier, sum(len(i) for i in rep.instances.values()), summary, n_known, n_viol, wall))
    return 1 if n_viol else 0


def sensitivity_audit(prop):
    """Thorough tier, still purely static: every recorded property-breaking patch of this property
    (/verif/seeded/<prop>-*/patch.diff) is applied to its own scratch copy of the CURRENT /repo (under a temp dir,
    removed afterwards), facts are re-extracted and the same quick rules run on it. Reports detected/applicable.
    It shows that the rules that just passed could have failed; it is not part of the verdict."""
    import concurrent.futures
    seeds_dir = os.path.join(VERIF, "seeded")
    ids = sorted(d for d in os.listdir(seeds_dir) if d.startswith(prop + "-") and
                 os.path.isfile(os.path.join(seeds_dir, d, "patch.diff"))) if os.path.isdir(seeds_dir) else []
    base = tempfile.mkdtemp(prefix="verif-audit-%s-" % prop)

    def one(sid):
        w = os.path.join(base, sid)
        os.makedirs(w)
        res = {"seed": sid, "applies": False, "detected": None, "rules": []}
        try:
            subprocess.run(["rsync", "-a", "--exclude", "target", "--exclude", ".git", REPO + "/", w + "/repo/"], check=True)
            patch = os.path.join(seeds_dir, sid, "patch.diff")
            r = subprocess.run(["patch", "-p1", "-s", "--dry-run", "-i", patch], cwd=w + "/repo",
                               stdout=subprocess.PIPE, stderr=subprocess.STDOUT)
            if r.returncode != 0:
                return res
            res["applies"] = True
            subprocess.run(["patch", "-p1", "-s", "-i", patch], cwd=w + "/repo", check=True)
            env = dict(os.environ, VERIF_REPO=w + "/repo", VERIF_EVIDENCE_DIR=w + "/evidence", VERIF_NO_AUDIT="1",
                       VERIF_TIER="quick")
            o = subprocess.run([os.path.join(VERIF, "check"), prop, "--tier", "quick"], env=env,
                               stdout=subprocess.PIPE, stderr=subprocess.STDOUT, text=True)
            res["detected"] = o.returncode == 1
            res["rules"] = sorted(set(re.findall(r"rule=(\S+)", o.stdout)))
            if o.returncode not in (0, 1):
                res["error"] = o.stdout[-300:]
        finally:
            shutil.rmtree(w, ignore_errors=True)
        return res
    try:
        with concurrent.futures.ThreadPoolExecutor(max_workers=4) as ex:
            results = list(ex.map(one, ids))
    finally:
        shutil.rmtree(base, ignore_errors=True)
    app = [r for r in results if r["applies"]]
    return {"what": "recorded property-breaking patches re-applied to scratch copies of the current tree",
            "patches": len(results), "applicable": len(app), "detected": sum(1 for r in app if r["detected"]),
            "skipped_not_applicable_to_current_tree": [r["seed"] for r in results if not r["applies"]],
            "results": results}


def write_evidence(mod, rep, prop, tier, seed, wall, n_viol, n_known, progs):
    level = getattr(mod, "LEVEL", "other")
    all_inst = [i for lst in rep.instances.values() for i in lst]
    evaluations = len(all_inst)
    distinct = len({i["key"] for i in all_inst if i.get("nontrivial")})
    samples = []
    for rid, lst in rep.instances.items():
        for i in lst[:2]:
            samples.append({"rule": rid, "instance": i["key"], "status": i["status"], "where": i.get("where"),
                            "detail": i.get("detail")})
    bodies = {}
    for c, p in progs.items():
        bodies[c] = {u.name: len(u.bodies) for u in p.units}
    cov = {
        "explanation": getattr(mod, "EXPLANATION", ""),
        "evaluations": evaluations,
        "distinct_nontrivial": distinct,
        "rule": "rule instances are enumerated semantically from the MIR/HIR fact files of /repo's current "
                "working tree; an instance is non-trivial when it carries a proof obligation that was "
                "actually evaluated (not a constant-true anchor); distinct = distinct (rule, function, construct) keys",
        "samples": samples,
        "rules": {rid: {"text": m["text"], "floor": m["floor"], "instances": len(rep.instances[rid]),
                        "violations": sum(1 for i in rep.instances[rid] if i["status"] == "violation")}
                  for rid, m in rep.rules.items()},
        "configurations": bodies,
        "tree_hash": {c: p.tree_hash for c, p in progs.items()},
        "known_findings_present": n_known,
        "not_decided": getattr(mod, "NOT_DECIDED", ""),
        "notes": rep.notes,
    }
    cov.update(rep.extra)
    if level == "proof":
        cov["obligations"] = evaluations
        cov["discharged"] = sum(1 for i in all_inst if i["status"] == "ok")
        cov["checker_cmd"] = "./check %s --tier %s" % (prop, tier)
        cov["trusted_base"] = getattr(mod, "TRUSTED_BASE", [])
    ev = {
        "property_id": prop, "tier": tier, "seed": seed, "level": level, "coverage": cov,
        "assumptions": rep.assumptions + getattr(mod, "ASSUMPTIONS", []),
        "wall_s": round(wall, 2), "violations": n_viol,
    }
    os.makedirs(EVID, exist_ok=True)
    tmp = os.path.join(EVID, ".%s.json.tmp" % prop)
    with open(tmp, "w") as f:
        json.dump(ev, f, indent=1, default=str)
    os.replace(tmp, os.path.join(EVID, "%s.json" % prop))


def main(argv):
    if len(argv) < 2:
        print("usage: check Cnn [--tier quick|thorough] [--explain replay.json]")
        return 2
    prop = argv[1]
    tier = os.environ.get("VERIF_TIER", "quick")
    explain = None
    i = 2
    while i < len(argv):
        if argv[i] == "--tier":
            tier = argv[i + 1]
            i += 2
        elif argv[i] == "--explain":
            explain = argv[i + 1]
            i += 2
        else:
            i += 1
    if tier not in ("quick", "thorough"):
        tier = "quick"
    if explain:
        with open(explain) as f:
            v = json.load(f)
        print(json.dumps(v, indent=1))
        print("re-running the check for property %s to re-derive the instance:" % prop)
    try:
        return run_check(prop, tier, explain)
    except InternalError as e:
        print("INTERNAL-ERROR: %s" % e)
        return 2
    except Exception:
        traceback.print_exc()
        print("INTERNAL-ERROR: unexpected exception in check %s" % prop)
        return 2


if __name__ == "__main__":
    sys.exit(main(sys.argv))
