"""E5 — compile-fail witnesses: runs the doc-tests of /verif/witness against the checked repository
(`cargo +nightly test --doc --offline` in a scratch crate whose path dependency points at the repo's statime crate;
the repo's Cargo.lock is copied next to it). Results are cached per tree hash next to the facts."""
import os, re, json, shutil, subprocess, tempfile, fcntl

WITNESSES = {
    # witness struct -> (rule id suffix, properties it serves, what it shows)
    "WCtx": ("W-CTX", ("C10",), "a TimestampContext is used by at most one handle_send_timestamp, cannot be cloned or forged"),
    "WTypestate": ("W-TYPESTATE", ("C08", "C17"), "Port<InBmca> has no handlers; PtpInstance::bmca rejects Port<Running>"),
    "WActions": ("W-ACTIONS", ("C10",), "no second handler call while a PortActionIterator is alive"),
    "WDemob": ("W-DEMOB", ("C13",), "a filter cannot be used after demobilize"),
    "WLeak": ("W-LEAK", ("C17",), "the &mut PtpInstanceState of with_mut cannot escape the closure"),
}


def run_all(verif, repo, cache_dir):
    """returns {witness: {"ok": bool, "tests": n, "failed": [..], "log": tail}}; raises RuntimeError when the doc-test
    run itself cannot be performed (that is an internal error, not a verdict)"""
    out_file = os.path.join(cache_dir, "witness.json")
    if os.path.exists(out_file):
        with open(out_file) as f:
            return json.load(f)
    work = os.path.join(verif, ".work")
    os.makedirs(work, exist_ok=True)
    # one run per tree: checks of the same tree wait for the first one's result
    os.makedirs(cache_dir, exist_ok=True)
    tree_lock = open(os.path.join(cache_dir, ".witness.lock"), "w")
    fcntl.flock(tree_lock, fcntl.LOCK_EX)
    try:
        return _run_all_locked(verif, repo, cache_dir, out_file, work)
    finally:
        fcntl.flock(tree_lock, fcntl.LOCK_UN)
        tree_lock.close()


def _run_all_locked(verif, repo, cache_dir, out_file, work):
    if os.path.exists(out_file):
        with open(out_file) as f:
            return json.load(f)
    # a few build slots: doc-test runs of different trees proceed in parallel, runs of more trees than slots queue
    nslots = max(1, min(6, (os.cpu_count() or 2) // 2))
    lock = None
    for i in range(nslots):
        f_ = open(os.path.join(work, ".witness.%d.lock" % i), "w")
        try:
            fcntl.flock(f_, fcntl.LOCK_EX | fcntl.LOCK_NB)
            lock = f_
            break
        except OSError:
            f_.close()
    if lock is None:
        lock = open(os.path.join(work, ".witness.%d.lock" % (os.getpid() % nslots)), "w")
        fcntl.flock(lock, fcntl.LOCK_EX)
    try:
        if os.path.exists(out_file):
            with open(out_file) as f:
                return json.load(f)
        d = tempfile.mkdtemp(prefix="witness-", dir=work)
        try:
            shutil.copytree(os.path.join(verif, "witness", "src"), os.path.join(d, "src"))
            with open(os.path.join(verif, "witness", "Cargo.toml.in")) as f:
                toml = f.read().replace("@REPO@", repo)
            with open(os.path.join(d, "Cargo.toml"), "w") as f:
                f.write(toml)
            shutil.copy(os.path.join(repo, "Cargo.lock"), os.path.join(d, "Cargo.lock"))
            env = dict(os.environ, CARGO_NET_OFFLINE="true", CARGO_TARGET_DIR=os.path.join(d, "target"))
            for k in ("RUSTC_WORKSPACE_WRAPPER", "RUSTC_WRAPPER", "RUSTFLAGS"):
                env.pop(k, None)
            r = subprocess.run(["cargo", "+nightly", "test", "--doc", "--offline"], cwd=d, env=env,
                               stdout=subprocess.PIPE, stderr=subprocess.STDOUT, text=True)
            log = r.stdout
            tests = re.findall(r"^test src/lib\.rs - (\w+) \(line (\d+)\)(?: - compile fail)? \.\.\. (\w+)", log, re.M)
            if not tests:
                raise RuntimeError("witness doc-tests did not run:\n" + log[-3000:])
            res = {}
            for name in WITNESSES:
                mine = [(ln, st) for (n, ln, st) in tests if n == name]
                failed = ["line %s" % ln for (ln, st) in mine if st != "ok"]
                detail = ""
                if failed:
                    m = re.search(r"---- src/lib\.rs - %s .*?(?=\n---- |\nfailures:)" % name, log, re.S)
                    detail = (m.group(0) if m else "")[-1500:]
                res[name] = {"ok": bool(mine) and not failed, "tests": len(mine), "failed": failed, "log": detail}
            os.makedirs(cache_dir, exist_ok=True)
            with open(out_file, "w") as f:
                json.dump(res, f, indent=1)
            return res
        finally:
            shutil.rmtree(d, ignore_errors=True)
    finally:
        fcntl.flock(lock, fcntl.LOCK_UN)
        lock.close()


def report(ctx, prop):
    """adds the witnesses serving `prop` to the report of the running check"""
    rep = ctx.report
    res = ctx.witnesses()
    for name, (rid, props, what) in WITNESSES.items():
        if prop not in props:
            continue
        rep.rule(rid, "compile-fail witness: " + what, floor=1)
        r = res.get(name)
        if r is None or r["tests"] == 0:
            rep.anchor_missing(rid, "witness %s produced no doc-test results" % name)
        elif r["ok"]:
            rep.ok(rid, "witness::%s" % name, "compile_fail + compiling twins", detail={"doc_tests": r["tests"]},
                   where="witness/src/lib.rs")
        else:
            rep.violation(rid, "witness::%s" % name, "compile_fail + compiling twins",
                          "the type-level guarantee no longer holds (or the API it is stated on changed): doc-tests %s of "
                          "witness %s failed: %s" % (r["failed"], name, r["log"][-700:].replace("\n", " | ")),
                          where="witness/src/lib.rs")
