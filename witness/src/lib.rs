//! Compile-fail witnesses for type-level clauses of C08 / C10 / C13 / C17 (DESIGN.md E5).
//!
//! Every witness is a generic function over the library's public types, so nothing has to be constructed: rustc's
//! type and borrow checking of the function body IS the verdict. Each `compile_fail,E0xxx` block has a compiling
//! twin directly before it that differs only in the offending line, so a witness that fails for an unrelated
//! reason (a renamed method, a changed signature) is noticed: the twin stops compiling and the doc-test run fails.
//! Run with `cargo +nightly test --doc --offline` (error codes are only honoured on nightly).
#![allow(unused)]

/// W-CTX (C10): one `handle_send_timestamp` per `TimestampContext`, hence at most one Follow_Up per Sync send.
///
/// twin:
/// ```
/// use statime::{port::*, config::*, filters::Filter, time::Time, Clock, PtpInstanceStateMutex};
/// fn once<'a, A: AcceptableMasterList, R: rand::Rng, C: Clock, F: Filter, S: PtpInstanceStateMutex>(
///     port: &mut Port<'a, Running, A, R, C, F, S>, ctx: TimestampContext, t: Time) {
///     let _ = port.handle_send_timestamp(ctx, t);
/// }
/// ```
/// used twice (moved value):
/// ```compile_fail,E0382
/// use statime::{port::*, config::*, filters::Filter, time::Time, Clock, PtpInstanceStateMutex};
/// fn twice<'a, A: AcceptableMasterList, R: rand::Rng, C: Clock, F: Filter, S: PtpInstanceStateMutex>(
///     port: &mut Port<'a, Running, A, R, C, F, S>, ctx: TimestampContext, t: Time) {
///     let _ = port.handle_send_timestamp(ctx, t);
///     let _ = port.handle_send_timestamp(ctx, t);
/// }
/// ```
/// twin (a type that is Clone):
/// ```
/// use statime::time::Time;
/// fn dup(t: &Time) -> Time { <Time as Clone>::clone(t) }
/// ```
/// cannot be duplicated:
/// ```compile_fail,E0277
/// use statime::port::TimestampContext;
/// fn dup(ctx: &TimestampContext) -> TimestampContext { <TimestampContext as Clone>::clone(ctx) }
/// ```
/// cannot be forged (private field):
/// ```compile_fail,E0451
/// use statime::port::TimestampContext;
/// fn forge() -> TimestampContext { TimestampContext { inner: unimplemented!() } }
/// ```
pub struct WCtx;

/// W-TYPESTATE (C08/C17): a port in the BMCA phase has no message/timer handlers, and the instance-level BMCA does
/// not accept running ports - handlers of a port cannot interleave with the BMCA of its instance.
///
/// twin:
/// ```
/// use statime::{port::*, config::*, filters::Filter, Clock, PtpInstanceStateMutex};
/// fn running<'a, A: AcceptableMasterList, R: rand::Rng, C: Clock, F: Filter, S: PtpInstanceStateMutex>(
///     port: &mut Port<'a, Running, A, R, C, F, S>) {
///     let _ = port.handle_sync_timer();
/// }
/// ```
/// no handler on `Port<InBmca>`:
/// ```compile_fail,E0599
/// use statime::{port::*, config::*, filters::Filter, Clock, PtpInstanceStateMutex};
/// fn in_bmca<'a, A: AcceptableMasterList, R: rand::Rng, C: Clock, F: Filter, S: PtpInstanceStateMutex>(
///     port: &mut Port<'a, InBmca, A, R, C, F, S>) {
///     let _ = port.handle_sync_timer();
/// }
/// ```
/// twin:
/// ```
/// use statime::{port::*, config::*, filters::Filter, Clock, PtpInstance, PtpInstanceStateMutex};
/// fn bmca_ok<'a, A: AcceptableMasterList, R: rand::Rng, C: Clock, F: Filter, S: PtpInstanceStateMutex>(
///     instance: &PtpInstance<F, S>, port: &mut Port<'a, InBmca, A, R, C, F, S>) {
///     instance.bmca(&mut [port]);
/// }
/// ```
/// the BMCA does not take running ports:
/// ```compile_fail,E0308
/// use statime::{port::*, config::*, filters::Filter, Clock, PtpInstance, PtpInstanceStateMutex};
/// fn bmca_running<'a, A: AcceptableMasterList, R: rand::Rng, C: Clock, F: Filter, S: PtpInstanceStateMutex>(
///     instance: &PtpInstance<F, S>, port: &mut Port<'a, Running, A, R, C, F, S>) {
///     instance.bmca(&mut [port]);
/// }
/// ```
pub struct WTypestate;

/// W-ACTIONS (C10): the frames referenced by a `PortActionIterator` borrow the port mutably; a second handler call
/// cannot overwrite the packet buffer while the actions of the first are still alive.
///
/// twin:
/// ```
/// use statime::{port::*, config::*, filters::Filter, Clock, PtpInstanceStateMutex};
/// fn sequential<'a, A: AcceptableMasterList, R: rand::Rng, C: Clock, F: Filter, S: PtpInstanceStateMutex>(
///     port: &mut Port<'a, Running, A, R, C, F, S>) {
///     let first = port.handle_sync_timer();
///     drop(first);
///     let second = port.handle_delay_request_timer();
///     drop(second);
/// }
/// ```
/// overlapping:
/// ```compile_fail,E0499
/// use statime::{port::*, config::*, filters::Filter, Clock, PtpInstanceStateMutex};
/// fn overlapping<'a, A: AcceptableMasterList, R: rand::Rng, C: Clock, F: Filter, S: PtpInstanceStateMutex>(
///     port: &mut Port<'a, Running, A, R, C, F, S>) {
///     let first = port.handle_sync_timer();
///     let second = port.handle_delay_request_timer();
///     drop(first);
///     drop(second);
/// }
/// ```
pub struct WActions;

/// W-DEMOB (C13): `demobilize` consumes the filter - no command can follow the final one.
///
/// twin:
/// ```
/// use statime::{filters::Filter, Clock};
/// fn last<F: Filter, C: Clock>(filter: F, clock: &mut C) {
///     filter.demobilize(clock);
/// }
/// ```
/// use after demobilize:
/// ```compile_fail,E0382
/// use statime::{filters::Filter, Clock};
/// fn after<F: Filter, C: Clock>(mut filter: F, clock: &mut C) {
///     filter.demobilize(clock);
///     let _ = filter.update(clock);
/// }
/// ```
pub struct WDemob;

/// W-LEAK (C17): the `&mut PtpInstanceState` lent to a `with_mut` closure cannot escape the critical section.
///
/// twin:
/// ```
/// use statime::{PtpInstanceState, PtpInstanceStateMutex};
/// fn inside<S: PtpInstanceStateMutex>(m: &S) -> usize {
///     m.with_mut(|s| core::mem::size_of_val(s))
/// }
/// ```
/// escaping reference:
/// ```compile_fail,E0521
/// use statime::{PtpInstanceState, PtpInstanceStateMutex};
/// fn escape<'x, S: PtpInstanceStateMutex>(m: &'x S, out: &mut Option<&'x mut PtpInstanceState>) {
///     m.with_mut(|s| { *out = Some(s); });
/// }
/// ```
pub struct WLeak;
